"""C16 -- a saved and restored scheduler or searcher continues exactly like the original."""
from pyvc.spec import *
import os

LEVEL = "other"
RGS = "syne_tune/optimizer/schedulers/searchers/random_grid_searcher.py"

EXPLANATION = (
    "Two kinds of obligations.  (1) State coverage, by static analysis of the real AST: every constructor parameter "
    "of a searcher with get_state / clone_from_state is passed on by clone_from_state, or restored from the state "
    "dictionary by _restore_from_state, or explicitly irrelevant for future suggestions.  (2) A native twin-"
    "continuation monitor (bounded): at every prefix of an event history the searcher is snapshotted and re-created "
    "in a fresh instance (random and grid searchers, GP-FIFO searcher on a short sequential history), schedulers are "
    "pickled with dill, and both copies are continued and compared."
)
ASSUMPTIONS = [
    "dill round trip = deep copy of the reachable object graph (checked only by the twin runs)",
    "bounded histories: <= 14 events, snapshot at every prefix; GP searcher: 9 sequential suggestions on a 2-d space",
    "equality of fitted GP hyper-parameters after restore is only observed through the suggestions",
]

# constructor parameters that cannot influence later suggestions / decisions of a restored searcher
IRRELEVANT = {
    "debug_log": "console output only",
    "points_to_evaluate": "the remaining initial points are part of the state dictionary",
    "mode": "random / grid suggestions do not depend on the metric",
    "resource_attr": "copied explicitly after construction (used for logging only)",
    "kwargs": "",
}
RESTORED_AS = {"random_seed": "random_state", "allow_duplicates": "_allow_duplicates", "restrict_configurations": "_restrict_configurations", "shuffle_config": "_shuffle_config", "num_samples": "num_samples"}


def static_state_coverage(tier="quick", seed=0, repo="/repo"):
    import ast
    import json as _json

    src = open(os.path.join(repo, RGS)).read()
    tree = ast.parse(src)
    base_src = open(os.path.join(repo, "syne_tune/optimizer/schedulers/searchers/searcher_base.py")).read()
    base_tree = ast.parse(base_src)
    classes = {c.name: c for c in list(tree.body) + list(base_tree.body) if isinstance(c, ast.ClassDef)}

    def method(cname, mname):
        c = classes.get(cname)
        while c is not None:
            for f in c.body:
                if isinstance(f, ast.FunctionDef) and f.name == mname:
                    return f
            b = c.bases[0].id if c.bases and isinstance(c.bases[0], ast.Name) else None
            c = classes.get(b)
        return None

    def init_params(cname):
        out = []
        c = classes.get(cname)
        while c is not None:
            for f in c.body:
                if isinstance(f, ast.FunctionDef) and f.name == "__init__":
                    for a in f.args.args[1:] + f.args.kwonlyargs:
                        if a.arg not in out:
                            out.append(a.arg)
                    # parameters taken out of **kwargs
                    for n in ast.walk(f):
                        if isinstance(n, ast.Call) and isinstance(n.func, ast.Attribute) and n.func.attr == "get" and isinstance(n.func.value, ast.Name) and n.func.value.id == "kwargs" and n.args and isinstance(n.args[0], ast.Constant):
                            if n.args[0].value not in out:
                                out.append(n.args[0].value)
                        if isinstance(n, ast.Call) and isinstance(n.func, ast.Name) and n.func.id == "extract_random_seed" and "random_seed" not in out:
                            out.append("random_seed")
            b = c.bases[0].id if c.bases and isinstance(c.bases[0], ast.Name) else None
            c = classes.get(b)
        return [p for p in out if p not in ("config_space", "metric")]

    def restored_fields(cname):
        out = set()
        c = classes.get(cname)
        while c is not None:
            for f in c.body:
                if isinstance(f, ast.FunctionDef) and f.name == "_restore_from_state":
                    for n in ast.walk(f):
                        if isinstance(n, ast.Attribute) and isinstance(n.ctx, ast.Store) and isinstance(n.value, ast.Name) and n.value.id == "self":
                            out.add(n.attr)
                        if isinstance(n, ast.Call) and isinstance(n.func, ast.Attribute) and n.func.attr == "set_state":
                            out.add("random_state")
            b = c.bases[0].id if c.bases and isinstance(c.bases[0], ast.Name) else None
            c = classes.get(b)
        return out

    res = {"name": "state-coverage", "kind": "static-analysis", "counts_as": "proof", "obligations": {}, "violations": [], "faults": [], "samples": [], "assumptions": [], "evaluations": 0, "distinct_nontrivial": 0}
    out_dir = os.path.join(os.environ.get("PYVC_OUT_DIR", "/verif"), "replays", "C16")
    for cname in ("RandomSearcher", "GridSearcher"):
        clone = method(cname, "clone_from_state")
        if clone is None:
            res["faults"].append("state-coverage: %s.clone_from_state not found" % cname)
            continue
        passed = set()
        for n in ast.walk(clone):
            if isinstance(n, ast.Call) and isinstance(n.func, ast.Name) and n.func.id == cname:
                passed |= {k.arg for k in n.keywords if k.arg}
        restored = restored_fields(cname)
        for p in init_params(cname):
            res["evaluations"] += 1
            name = "C16/static[%s.clone_from_state][%s]" % (cname, p)
            ok = p in passed or p in IRRELEVANT or RESTORED_AS.get(p, p) in restored or ("_" + p) in restored
            res["obligations"][name] = "proved" if ok else "refuted"
            if not ok:
                os.makedirs(out_dir, exist_ok=True)
                path = os.path.join(out_dir, name.replace("/", "_").replace("[", "(").replace("]", ")") + ".json")
                _json.dump({"property": "C16", "obligation": name, "note": "constructor parameter %r of %s influences later suggestions but is neither passed by clone_from_state nor restored by _restore_from_state" % (p, cname), "passed": sorted(passed), "restored_fields": sorted(restored)}, open(path, "w"), indent=1)
                res["violations"].append({"obligation": name, "replay": path, "reproduced": False, "native": {"parameter": p, "class": cname}})
        res["distinct_nontrivial"] += 1
    res["samples"] = [{"obligation": n, "status": st} for n, st in list(res["obligations"].items())[:3]]
    return res


# -- native twin continuation (bounded) --------------------------------------------------------------------------------


def _searcher_cases():
    from syne_tune.config_space import randint, choice, uniform
    from syne_tune.optimizer.schedulers.searchers.random_grid_searcher import RandomSearcher, GridSearcher

    small = {"a": choice(["a", "b", "c", "d", "e", "f", "g", "h"]), "b": choice([1, 2, 3])}
    mixed = {"x": randint(0, 6), "c": choice(["p", "q", "r"])}
    cases = {}
    cases["random(default)"] = lambda seed: RandomSearcher(mixed, metric="loss", random_seed=seed)
    cases["random(allow_duplicates)"] = lambda seed: RandomSearcher(mixed, metric="loss", random_seed=seed, allow_duplicates=True)
    cases["random(allow_duplicates, tiny space)"] = lambda seed: RandomSearcher({"b": choice([1, 2, 3, 4])}, metric="loss", random_seed=seed, allow_duplicates=True)
    cases["random(points_to_evaluate)"] = lambda seed: RandomSearcher(mixed, metric="loss", random_seed=seed, points_to_evaluate=[{"x": 1, "c": "q"}, {"x": 2}])
    cases["grid(shuffled)"] = lambda seed: GridSearcher(small, metric="loss", random_seed=seed)
    cases["grid(not shuffled)"] = lambda seed: GridSearcher(small, metric="loss", random_seed=seed, shuffle_config=False)
    cases["grid(allow_duplicates)"] = lambda seed: GridSearcher({"b": choice([1, 2, 3])}, metric="loss", random_seed=seed, allow_duplicates=True)
    # small grids: the snapshot positions reach and pass the point where the grid is used up
    cases["grid(3 configurations)"] = lambda seed: GridSearcher({"b": choice([1, 2, 3])}, metric="loss", random_seed=seed)
    cases["grid(4 configurations, initial point)"] = lambda seed: GridSearcher({"a": choice(["p", "q"]), "b": choice([1, 2])}, metric="loss", random_seed=seed, points_to_evaluate=[{"a": "q", "b": 1}], shuffle_config=False)
    return cases


def _drive_searcher(s, events, start=0):
    out = []
    for i in range(start, start + events):
        cfg = s.get_config(trial_id=str(i))
        out.append(None if cfg is None else sorted(cfg.items()))
        if cfg is not None:
            s.register_pending(str(i), config=cfg)
            if i % 4 == 1:
                s.evaluation_failed(str(i))
            else:
                s.on_trial_result(str(i), cfg, {"loss": 0.1 * i}, update=True)
    return out


def monitor_restore(tier="quick", seed=0):
    import copy

    viol = []
    n = 0
    cases = _searcher_cases()
    total = 10 if tier == "quick" else 24
    for name, mk in cases.items():
        for k in range(0, total - 2):
            n += 1
            try:
                orig = mk(7)
                _drive_searcher(orig, k)
                # the snapshot is used as handed out (in memory, not pickled): restoring must not leave the restored searcher
                # sharing mutable state with the original, which keeps running first here
                state = orig.get_state() if k % 2 == 0 else copy.deepcopy(orig.get_state())
                clone = mk(99 + k).clone_from_state(state)  # a fresh instance, as after a restart
                a = _drive_searcher(orig, 12, start=k)
                b = _drive_searcher(clone, 12, start=k)
            except Exception as e:
                viol.append({"clause": "restored-searcher-continues-identically[%s]" % name, "case": name, "snapshot_after": k, "raised": repr(e)[:200]})
                break
            if a != b:
                viol.append({"clause": "restored-searcher-continues-identically[%s]" % name, "case": name, "snapshot_after": k, "original": repr(a)[:200], "restored": repr(b)[:200]})
                break
    # schedulers: the way the tuner checkpoints itself (dill)
    try:
        import dill
        from contracts import c11

        facs = c11._factories()
        for name in ("random[seed=3]", "hyperband-promotion[seed=3]", "hyperband-stopping[seed=0]", "pbt[seed=3]"):
            n += 1
            mk = facs[name]
            full = c11._history(mk, 30, False, 0)
            for k in (0, 7, 15):
                # replay k events on a fresh scheduler, pickle it, continue the copy with the same workload
                copied = {}

                def mk2(mk=mk, k=k, copied=copied):
                    return mk()

                tr = _history_with_pickle(c11, mk, 30, k, dill)
                if tr != full:
                    j = next((i for i in range(min(len(tr), len(full))) if tr[i] != full[i]), min(len(tr), len(full)))
                    viol.append({"clause": "pickled-scheduler-continues-identically[%s]" % name, "case": name, "snapshot_after": k, "first_difference_at_event": j, "uninterrupted": repr(full[j:j + 1])[:200], "restored": repr(tr[j:j + 1])[:200]})
                    break
        sched_names = ["random[seed=3]", "hyperband-promotion[seed=3]", "hyperband-stopping[seed=0]", "pbt[seed=3]"]
    except ImportError:
        sched_names = []
    clauses = ["restored-searcher-continues-identically[%s]" % c for c in cases] + ["pickled-scheduler-continues-identically[%s]" % c for c in sched_names]
    if tier != "quick" or os.environ.get("C16_GP", "1") == "1":
        gp = _gp_twin(tier)
        n += gp["n"]
        viol.extend(gp["viol"])
        clauses.append("restored-gp-searcher-continues-identically")
    return {"evaluations": n, "distinct": len(cases) + 4, "clauses": clauses, "violations": viol, "samples": [{"case": c} for c in list(cases)[:3]], "summary": "%d searcher cases x %d snapshot positions, 4 schedulers x 3 pickling positions, GP-FIFO twin" % (len(cases), total - 2)}


def _history_with_pickle(c11, mk, steps, k, dill):
    """same workload as c11._history, but after k steps the scheduler is replaced by its dill copy"""
    state = {"count": 0, "sched": None}

    class Swap:
        def __init__(self, inner):
            object.__setattr__(self, "_inner", inner)

        def _tick(self):
            state["count"] += 1
            if state["count"] == k + 1:
                object.__setattr__(self, "_inner", dill.loads(dill.dumps(self._inner)))

        def suggest(self, *a, **kw):
            self._tick()
            return self._inner.suggest(*a, **kw)

        def on_trial_result(self, *a, **kw):
            self._tick()
            return self._inner.on_trial_result(*a, **kw)

        def __getattr__(self, nm):
            return getattr(self._inner, nm)

    return c11._history(lambda: Swap(mk()), steps, False, 0)


def _gp_twin(tier):
    import copy
    import numpy as np
    from syne_tune.config_space import uniform
    from syne_tune.optimizer.schedulers.searchers.gp_fifo_searcher import GPFIFOSearcher

    space = {"x": uniform(0.0, 1.0), "y": uniform(0.0, 1.0)}
    kw = dict(metric="loss", random_seed=11, num_init_random=2, opt_skip_init_length=3, opt_skip_period=3, opt_nstarts=1, opt_maxiter=10, num_initial_candidates=30, num_initial_random_choices=30, debug_log=False)

    def drive(s, lo, hi):
        out = []
        for i in range(lo, hi):
            cfg = s.get_config(trial_id=str(i))
            out.append(tuple(round(cfg[k], 6) for k in ("x", "y")))
            s.on_trial_result(str(i), cfg, {"loss": (cfg["x"] - 0.3) ** 2 + (cfg["y"] - 0.6) ** 2}, update=True)
        return out

    viol = []
    n = 0
    total = 8 if tier == "quick" else 11
    for k in ((4, 5) if tier == "quick" else (3, 4, 5, 6, 7)):
        n += 1
        orig = GPFIFOSearcher(space, **kw)
        drive(orig, 0, k)
        state = copy.deepcopy(orig.get_state())
        fresh = GPFIFOSearcher(space, **kw)
        clone = fresh.clone_from_state(state)
        a = drive(orig, k, total)
        b = drive(clone, k, total)
        if a != b:
            viol.append({"clause": "restored-gp-searcher-continues-identically", "snapshot_after": k, "original": repr(a)[:200], "restored": repr(b)[:200]})
            break
    # a finite space with duplicates allowed: the restored searcher must keep re-suggesting like the original
    from syne_tune.config_space import choice

    tiny = {"c": choice(["p", "q", "r", "s"])}
    kw2 = dict(kw, allow_duplicates=True)

    def drive2(s, lo, hi):
        out = []
        for i in range(lo, hi):
            cfg = s.get_config(trial_id=str(i))
            out.append(None if cfg is None else cfg["c"])
            if cfg is not None:
                s.on_trial_result(str(i), cfg, {"loss": {"p": 0.4, "q": 0.1, "r": 0.3, "s": 0.2}[cfg["c"]] + 0.01 * i}, update=True)
        return out

    for k in (0, 3) if tier == "quick" else (0, 2, 3, 5):
        n += 1
        orig = GPFIFOSearcher(tiny, **kw2)
        drive2(orig, 0, k)
        clone = GPFIFOSearcher(tiny, **kw2).clone_from_state(copy.deepcopy(orig.get_state()))
        a = drive2(orig, k, 8)
        b = drive2(clone, k, 8)
        if a != b:
            viol.append({"clause": "restored-gp-searcher-continues-identically", "case": "4 configurations, allow_duplicates", "snapshot_after": k, "original": repr(a)[:200], "restored": repr(b)[:200]})
            break
    # a trial that failed before reporting anything is remembered only through the state's list of failed trials: the
    # restored searcher must keep avoiding its configuration
    kw3 = dict(kw, allow_duplicates=False)

    def drive3(s, lo, hi, fail):
        out = []
        for i in range(lo, hi):
            cfg = s.get_config(trial_id=str(i))
            out.append(None if cfg is None else cfg["c"])
            if cfg is None:
                continue
            s.register_pending(str(i), config=cfg)
            if i in fail:
                s.evaluation_failed(str(i))
            else:
                s.on_trial_result(str(i), cfg, {"loss": {"p": 0.4, "q": 0.1, "r": 0.3, "s": 0.2}[cfg["c"]]}, update=True)
        return out

    for fail, k in (((0,), 1), ((1,), 2), ((0, 1), 2)) if tier == "quick" else (((0,), 1), ((0,), 2), ((1,), 2), ((0, 1), 2), ((2,), 3)):
        n += 1
        orig = GPFIFOSearcher(tiny, **kw3)
        first = drive3(orig, 0, k, fail)
        clone = GPFIFOSearcher(tiny, **kw3).clone_from_state(copy.deepcopy(orig.get_state()))
        a = drive3(orig, k, 7, fail)
        b = drive3(clone, k, 7, fail)
        if a != b or any(x is not None and x in first for x in b):
            viol.append({"clause": "restored-gp-searcher-continues-identically", "case": "4 configurations, trial(s) %s failed before the snapshot" % (fail,), "snapshot_after": k, "before": repr(first), "original": repr(a)[:200], "restored": repr(b)[:200]})
            break
    return {"n": n, "viol": viol}


from pyvc.native import native_monitor  # noqa: E402

EXTRA_CHECKS = [static_state_coverage, native_monitor("C16", "contracts.c16", "monitor_restore", "twin-continuation", "6 searcher cases x 8 snapshot positions, 4 schedulers x 3 dill positions, GP-FIFO searcher: 2 snapshot positions")]
EXTRA_CHECKS = list(EXTRA_CHECKS) + [native_monitor("C16", "contracts.c16_native", "monitor_restore_gp", "restore-gp", "about 45 (thorough 340 x 2 seeds) random-phase scenarios of the GP searchers (restrict_configurations, duplicates, points_to_evaluate, failed trials, 1 or 3 running trials) with a snapshot at every event prefix, 9 scenarios with real model fits, 11 HyperbandScheduler(bayesopt) scenarios; state used as handed out, after pickle and after dill; restore into a freshly constructed object")]
