"""C08 (native monitor) -- GP surrogate posterior == textbook dense-matrix expressions.

``monitor_posterior(tier, seed)`` runs the REAL gpautograd posterior code on a bounded, seed-dependent random
catalogue and compares it with an independent dense float64 computation written here in plain numpy:

    means  = m(X*) + K*^T (K + s2 I)^-1 (Y - m(X))           (column-wise for fantasy matrices)
    vars   = max(diag(K**) - diag(K*^T (K + s2 I)^-1 K*), MIN_POSTERIOR_VARIANCE)
    NLML   = 0.5 (n log 2pi + logdet(K + s2 I) + (y-m)^T (K + s2 I)^-1 (y-m))
    cov    = K** - K*^T (K + s2 I)^-1 K*   (+ 1e-5 I, the jitter added by sample_posterior_joint)

The kernel matrices of the reference come from re-implementations that only read PARAMETER VALUES from the
library objects (Matern-5/2 iso/ARD/with and without covariance scale, tuple form (kernel, covariance_scale),
Kumaraswamy warping, product kernel, exponential-decay resource kernel + its mean function, and WarpedKernel around
inner kernels whose diagonal DEPENDS ON X: exponential-decay kernel alone / inside a ProductKernelFunction / inside a
RangeKernelFunction, with one or two Warping blocks covering (or, rarely, missing) the resource coordinate; the monitor
raises unless >= 3 cases have a warping with parameters != 1 on a coordinate the inner diagonal depends on, so that
kernel.diagonal(X) == diag(kernel(X, X)) is a non-trivial statement about WarpedKernel.diagonal), and from two
hand-written KernelFunction subclasses (RBF, fixed positive-definite table) for which the kernel matrix of the
library run and of the reference are bit-identical, so that the posterior algebra is checked independently of the
Matern code and with round-off-only tolerances.

Tolerances are first-order perturbation bounds (they contain A^-1 through w = A^-1 k*, alpha = A^-1 (y - m), i.e. they
scale with the conditioning of A = K + s2 I):
    |d mean_ij| <= eps (|w_i|^T s + sqrt(k**_i)) (|alpha_j|^T s) + ROUND |A| |w_i|_1 |alpha_j|_1        s = sqrt(diag K)
    |d cov_ij | <= eps (|w_i|^T s + sqrt(k**_i)) (|w_j|^T s + sqrt(k**_j)) + ROUND |A| |w_i|_1 |w_j|_1
    |d NLML   | <= eps/2 (s^T |A^-1| s + (|alpha|^T s)^2) + ROUND/2 |A| (sum |A^-1| + |alpha|_1^2)
for an element-wise kernel error <= eps/4 sqrt(K_aa K_bb): eps = 1e-8 (x (1 + 1e-5 sum inv_bw^2)) for library kernels
(they deviate from the textbook formula by the documented NUMERICAL_JITTER = 1e-9 inside the square root, ~5e-10
relative per Matern factor, plus round-off of the expanded squared distance) and eps = 1e-13 for the hand-written
kernels; ROUND = 1e-13 covers the backward error of the factorisations on both sides.  The noise variance of every case
is raised (x10 steps) until eps * cond(A) <= 5e-4 (cond <= 5e4 resp. 5e9), so that the first-order bounds are valid, the
AddJitterOp search never has to add jitter and no relative tolerance exceeds ~1e-3 ("capped by construction").

Aliasing scenarios: every array handed to the posterior-state constructors, update / sample_and_update /
expand_fantasies, predict and the low-level entry points (features, targets, noise variance, covariance scale of the
tuple form, new rows, fantasy rows, mean_impute_mask, test features, normal draws) and the returned sampled targets are
overwritten IN PLACE by the caller right after each call.  Clause "state-does-not-alias-the-caller's-arrays": all later
results equal those of a control run of the same calls on untouched private copies (and the stored features / noise
variance equal the original values); the results are also compared with the dense reference of the ORIGINAL values and
a library recompute from them under the incremental-update / predictive clauses.

Bounded stand-in, never counted as proved.
"""
import logging
import math
import warnings

import numpy as np

CLAUSES = [
    "predictive-mean-equals-dense",
    "predictive-variance-equals-dense",
    "variance-between-floor-and-prior",
    "nlml-equals-dense",
    "joint-sample-covariance-equals-dense",
    "marginal-samples-use-marginal-std",
    "incremental-update-equals-recompute",
    "fantasy-columns-independent",
    "matern52-equals-textbook",
    "kernel-diagonal-consistent",
    "cholesky-factor-reconstructs-system-matrix",
    "warping-equals-formula",
    "product-kernel-equals-product",
    "expdecay-kernel-equals-formula",
    "gp-regression-predict-equals-dense",
    "state-does-not-alias-the-caller's-arrays",
]

FLOOR = 1e-12  # MIN_POSTERIOR_VARIANCE (checked against the library constant at run time)
JOINT_JITTER = 1e-5
EPS_LIB = 1e-8
EPS_OWN = 1e-13
ROUND = 1e-13
CAP = 1e-3
SQRT5 = math.sqrt(5.0)

_ENV = None


# --------------------------------------------------------------------------------------------------------------
# independent reference formulas (plain numpy, explicit pairwise differences)
# --------------------------------------------------------------------------------------------------------------
def ref_matern52(X1, X2, inv_bw, cscale):
    """k(r) = c (1 + sqrt5 r + 5/3 r^2) exp(-sqrt5 r), r = ||(x - x') * inv_bw||"""
    X1 = np.asarray(X1, dtype=np.float64)
    X2 = np.asarray(X2, dtype=np.float64)
    ib = np.broadcast_to(np.asarray(inv_bw, dtype=np.float64).reshape(-1), (X1.shape[1],)) if np.size(inv_bw) == 1 else np.asarray(inv_bw, dtype=np.float64).reshape(-1)
    out = np.empty((X1.shape[0], X2.shape[0]))
    for i in range(X1.shape[0]):
        for j in range(X2.shape[0]):
            diff = (X1[i] - X2[j]) * ib
            r2 = float(np.sum(diff * diff))
            r = math.sqrt(r2)
            out[i, j] = cscale * (1.0 + SQRT5 * r + (5.0 / 3.0) * r2) * math.exp(-SQRT5 * r)
    return out


def ref_warp(X, ranges, powers_a, powers_b, jitter=1e-9):
    """Kumaraswamy warping 1 - (1 - r(x)^a)^b on the given coordinate ranges, r: [0,1] -> [jitter, 1 - jitter]"""
    X = np.array(X, dtype=np.float64, copy=True)
    for (lo, hi), pa, pb in zip(ranges, powers_a, powers_b):
        for k, col in enumerate(range(lo, hi)):
            r = (1.0 - 2.0 * jitter) * X[:, col] + jitter
            X[:, col] = 1.0 - (1.0 - r ** pa[k]) ** pb[k]
    return X


def ref_kappa(r, alpha, mean_lam):
    beta = alpha / mean_lam
    return (beta / (r + beta)) ** alpha


def ref_expdecay_kernel(X1, X2, kx, mux, alpha, mean_lam, gamma, delta):
    """k((x,r),(x',r')) = kx(x,x') [1 - delta (kap(r) + kap(r') - delta kap(r+r'))]
    + (gamma - delta mu(x)) (gamma - delta mu(x')) (kap(r+r') - kap(r) kap(r'))"""
    X1 = np.asarray(X1, dtype=np.float64)
    X2 = np.asarray(X2, dtype=np.float64)
    KX = kx(X1[:, :-1], X2[:, :-1])
    m1 = mux(X1[:, :-1])
    m2 = mux(X2[:, :-1])
    out = np.empty((X1.shape[0], X2.shape[0]))
    for i in range(X1.shape[0]):
        for j in range(X2.shape[0]):
            r1, r2 = X1[i, -1], X2[j, -1]
            k1, k2, k12 = ref_kappa(r1, alpha, mean_lam), ref_kappa(r2, alpha, mean_lam), ref_kappa(r1 + r2, alpha, mean_lam)
            out[i, j] = KX[i, j] * (1.0 - delta * (k1 + k2 - delta * k12)) + (gamma - delta * m1[i]) * (gamma - delta * m2[j]) * (k12 - k1 * k2)
    return out


def ref_expdecay_mean(X, mux, alpha, mean_lam, gamma, delta):
    X = np.asarray(X, dtype=np.float64)
    m = mux(X[:, :-1])
    return m + ref_kappa(X[:, -1], alpha, mean_lam) * (gamma - delta * m)


def own_rbf(X1, X2, lengthscales, amplitude):
    X1 = np.asarray(X1, dtype=np.float64)
    X2 = np.asarray(X2, dtype=np.float64)
    out = np.empty((X1.shape[0], X2.shape[0]))
    for i in range(X1.shape[0]):
        for j in range(X2.shape[0]):
            diff = (X1[i] - X2[j]) / lengthscales
            out[i, j] = amplitude * math.exp(-0.5 * float(np.sum(diff * diff)))
    return out


def table_index(X, size):
    return np.clip(np.rint(np.asarray(X, dtype=np.float64).reshape(-1) * (size - 1)).astype(int), 0, size - 1)


def own_table(X1, X2, table):
    i1 = table_index(X1, table.shape[0])
    i2 = table_index(X2, table.shape[0])
    return np.array(table[np.ix_(i1, i2)], dtype=np.float64, copy=True)


class Dense:
    """dense textbook posterior for system matrix A = K + s2 I"""

    def __init__(self, K, Ks, Kss, s2, mX, mXs, Y, eps, kabs=0.0):
        n = K.shape[0]
        self.n = n
        self.K, self.Ks, self.Kss = K, Ks, Kss
        self.A = K + s2 * np.eye(n)
        self.R = Y - mX.reshape(-1, 1)
        self.alpha = np.linalg.solve(self.A, self.R)
        self.W = np.linalg.solve(self.A, Ks)
        self.means = mXs.reshape(-1, 1) + Ks.T @ self.alpha
        cov = Kss - Ks.T @ self.W
        self.cov = 0.5 * (cov + cov.T)
        self.kss = np.diag(Kss).copy()
        self.var_raw = self.kss - np.sum(Ks * self.W, axis=0)
        self.var = np.maximum(self.var_raw, FLOOR)
        sign, logdet = np.linalg.slogdet(self.A)
        assert sign > 0
        self.logdet = logdet
        self.quad = float(self.R[:, 0] @ self.alpha[:, 0])
        self.nlml = 0.5 * (n * math.log(2.0 * math.pi) + logdet + self.quad)
        ev = np.linalg.eigvalsh(0.5 * (self.A + self.A.T))
        self.normA = float(ev[-1])
        self.cond = float(ev[-1] / ev[0]) if ev[0] > 0 else float("inf")
        self.kmax = float(max(np.max(np.diag(K)), np.max(self.kss)))
        self.eps = eps
        # tolerances: first-order perturbation bounds for an element-wise kernel error |dK_ab| <= (eps/4) sqrt(K_aa K_bb)
        # (model error of the library kernel w.r.t. the textbook formula; checked separately on the same inputs) plus a
        # norm-wise backward error ROUND * |A| of the two factorisations; a safety factor 4 is included in eps.
        #   d mean_ij = -w_i^T dA alpha_j + dk*_i^T alpha_j,   d cov_ij = dk**_ij - dk*_i^T w_j - w_i^T dk*_j + w_i^T dA w_j
        #   d logdet = tr(A^-1 dA),  d quad = -alpha^T dA alpha        (w = A^-1 k*, alpha = A^-1 (y - m))
        sd = np.sqrt(np.maximum(np.diag(K), 0.0))
        ss = np.sqrt(np.maximum(self.kss, 0.0))
        a = np.abs(self.W).T @ sd  # (n_test,)
        b = np.abs(self.alpha).T @ sd  # (m,)
        w1 = np.sum(np.abs(self.W), axis=0)
        a1 = np.sum(np.abs(self.alpha), axis=0)
        yscale = float(np.max(np.abs(Y))) + float(np.max(np.abs(mXs))) + float(np.max(np.abs(mX))) + 1e-3
        # kabs: absolute element-wise kernel error (cancellation inside composite kernels), same propagation
        rnd = ROUND * self.normA
        self.tol_round_mean = rnd * np.outer(w1, a1) + 1e-12 * yscale
        self.tol_mean = eps * np.outer(a + ss, b) + kabs * np.outer(w1 + 1.0, a1) + self.tol_round_mean
        self.tol_cov = eps * np.outer(a + ss, a + ss) + kabs * np.outer(w1 + 1.0, w1 + 1.0) + rnd * np.outer(w1, w1) + 1e-14 * self.kmax
        self.tol_var = np.diag(self.tol_cov).copy()
        Ainv = np.abs(np.linalg.inv(self.A))
        self.tol_nlml = (
            0.5 * eps * (float(sd @ Ainv @ sd) + float(b[0] ** 2))
            + 0.5 * (rnd + kabs) * (float(np.sum(Ainv)) + float(a1[0] ** 2))
            + 1e-12 * (1.0 + abs(self.nlml))
        )
        self.tol_A = eps * np.outer(sd, sd) + kabs + 1e-14 * self.normA
        # upper end of the admissible variance range: the prior variance up to the kernel's own error
        self.prior_upper = np.maximum(self.kss, FLOOR) + 0.25 * eps * self.kss + kabs + 1e-14 * self.kmax


# --------------------------------------------------------------------------------------------------------------
# library access (lazy so that importing this module never needs the repository)
# --------------------------------------------------------------------------------------------------------------
def _env():
    global _ENV
    if _ENV is not None:
        return _ENV
    from types import SimpleNamespace

    base = "syne_tune.optimizer.schedulers.searchers.bayesopt.gpautograd."
    import importlib

    kernel_mod = importlib.import_module(base + "kernel")
    mean_mod = importlib.import_module(base + "mean")
    warp_mod = importlib.import_module(base + "warping")
    pu = importlib.import_module(base + "posterior_utils")
    ps = importlib.import_module(base + "posterior_state")
    const = importlib.import_module(base + "constants")
    gpr = importlib.import_module(base + "gp_regression")
    hpf = importlib.import_module("syne_tune.optimizer.schedulers.searchers.utils.hp_ranges_factory")
    cs = importlib.import_module("syne_tune.config_space")

    class OwnRBFKernel(kernel_mod.KernelFunction):
        """hand-written RBF kernel: amplitude * exp(-0.5 ||(x - x') / lengthscales||^2)"""

        def __init__(self, dimension, lengthscales, amplitude, **kwargs):
            super().__init__(dimension, **kwargs)
            self.lengthscales = np.asarray(lengthscales, dtype=np.float64)
            self.amplitude = float(amplitude)

        def forward(self, X1, X2):
            return own_rbf(X1, X2, self.lengthscales, self.amplitude)

        def diagonal(self, X):
            return np.full((X.shape[0],), self.amplitude)

        def diagonal_depends_on_X(self):
            return False

        def param_encoding_pairs(self):
            return []

        def get_params(self):
            return dict()

        def set_params(self, param_dict):
            pass

    class OwnTableKernel(kernel_mod.KernelFunction):
        """hand-written kernel on {0, 1/(p-1), ..., 1}: a fixed positive-definite p x p table"""

        def __init__(self, table, **kwargs):
            super().__init__(1, **kwargs)
            self.table = np.asarray(table, dtype=np.float64)

        def forward(self, X1, X2):
            return own_table(X1, X2, self.table)

        def diagonal(self, X):
            return np.diag(self.table)[table_index(X, self.table.shape[0])].copy()

        def diagonal_depends_on_X(self):
            return True

        def param_encoding_pairs(self):
            return []

        def get_params(self):
            return dict()

        def set_params(self, param_dict):
            pass

    class OwnLinearMean(mean_mod.MeanFunction):
        """hand-written mean function m(x) = a + b^T x"""

        def __init__(self, offset, slope, **kwargs):
            super().__init__(**kwargs)
            self.offset = float(offset)
            self.slope = np.asarray(slope, dtype=np.float64)

        def forward(self, X):
            return np.reshape(self.offset + np.asarray(X) @ self.slope, (-1, 1))

        def param_encoding_pairs(self):
            return []

        def get_params(self):
            return dict()

        def set_params(self, param_dict):
            pass

    _ENV = SimpleNamespace(
        K=kernel_mod,
        M=mean_mod,
        W=warp_mod,
        pu=pu,
        ps=ps,
        const=const,
        gpr=gpr,
        hpf=hpf,
        cs=cs,
        OwnRBFKernel=OwnRBFKernel,
        OwnTableKernel=OwnTableKernel,
        OwnLinearMean=OwnLinearMean,
    )
    return _ENV


class StubRandomState:
    """random_state whose .normal(size=...) returns prescribed arrays"""

    def __init__(self, arrays):
        self.queue = [np.array(a, dtype=np.float64, copy=True) for a in arrays]
        self.calls = 0

    def normal(self, loc=0.0, scale=1.0, size=None):
        if not self.queue:
            raise RuntimeError("stub random_state: more draws requested than prescribed")
        a = self.queue.pop(0)
        shape = tuple(int(s) for s in size) if size is not None else ()
        if a.shape != shape:
            raise RuntimeError("stub random_state: requested size %s, prescribed %s" % (shape, a.shape))
        self.calls += 1
        return a


# --------------------------------------------------------------------------------------------------------------
# bookkeeping
# --------------------------------------------------------------------------------------------------------------
class Ctx:
    def __init__(self, seed):
        self.seed = seed
        self.evaluations = 0
        self.distinct = set()
        self.counts = {c: 0 for c in CLAUSES}
        self.violations = []
        self.n_violations = 0
        self.by_clause = {}
        self.stored_per = {}
        self.worst = {}
        self.case = None
        self.clause = None

    def check(self, clause, what, got, want, tol, extra=None):
        assert clause in self.counts, clause
        got = np.asarray(got, dtype=np.float64)
        want = np.asarray(want, dtype=np.float64)
        self.evaluations += 1
        self.counts[clause] += 1
        self.distinct.add((clause, self.case["id"], what))
        if got.shape != want.shape:
            self._violation(clause, what, {"shape_got": list(got.shape), "shape_expected": list(want.shape)}, extra)
            return False
        tol = np.broadcast_to(np.asarray(tol, dtype=np.float64), want.shape)
        dev = np.abs(got - want)
        bad = ~(dev <= tol)  # catches nan
        with np.errstate(divide="ignore", invalid="ignore"):
            ratio = np.where(tol > 0, dev / tol, np.where(dev > 0, np.inf, 0.0))
        mr = float(np.nanmax(ratio)) if ratio.size else 0.0
        if mr > self.worst.get(clause, (0.0, None))[0]:
            self.worst[clause] = (mr, self.case["id"])
        if np.any(bad):
            idx = np.unravel_index(int(np.argmax(np.where(np.isnan(ratio), np.inf, ratio))), want.shape) if want.ndim else ()
            scale = float(np.max(np.abs(want))) if want.size else 0.0
            self._violation(
                clause,
                what,
                {
                    "max_abs_deviation": float(np.nanmax(dev)) if not np.all(np.isnan(dev)) else "nan",
                    "max_rel_deviation": (float(np.nanmax(dev)) / scale) if scale > 0 and not np.all(np.isnan(dev)) else None,
                    "tolerance_at_worst": float(tol[idx]) if want.ndim else float(tol),
                    "deviation_over_tolerance": mr,
                    "got_at_worst": float(got[idx]) if want.ndim else float(got),
                    "expected_at_worst": float(want[idx]) if want.ndim else float(want),
                    "index": [int(i) for i in idx] if want.ndim else [],
                },
                extra,
            )
            return False
        return True

    def check_bool(self, clause, what, ok, info=None):
        self.evaluations += 1
        self.counts[clause] += 1
        self.distinct.add((clause, self.case["id"], what))
        if not ok:
            self._violation(clause, what, info or {}, None)
        return ok

    def exception(self, exc):
        import traceback

        self._violation(
            self.clause or "predictive-mean-equals-dense",
            "exception",
            {"exception": "%s: %s" % (type(exc).__name__, exc), "traceback": traceback.format_exc()[-600:]},
            None,
        )

    def _violation(self, clause, what, info, extra):
        self.n_violations += 1
        self.by_clause[clause] = self.by_clause.get(clause, 0) + 1
        key = (clause, self.case.get("kind"))
        self.stored_per[key] = self.stored_per.get(key, 0) + 1
        if len(self.violations) >= 30 or self.stored_per[key] > 2:
            return
        v = {"clause": clause, "what": what, "seed": self.seed}
        v.update({k: self.case[k] for k in ("id", "kind", "n", "d", "n_test", "m", "mean", "params", "noise_variance", "cond", "data_mode") if k in self.case})
        v.update(info)
        if extra:
            v.update(extra)
        self.violations.append(v)


def _f(x):
    return float(np.reshape(np.asarray(x, dtype=np.float64), (-1,))[0])


def _logu(rs, lo, hi):
    return float(math.exp(rs.uniform(math.log(lo), math.log(hi))))


def _draw(rs, lo, hi, mode, blo, bhi):
    """parameter value inside the box [lo, hi]: benign range, anywhere (log-uniform), or exactly at a bound"""
    if mode == "benign":
        return _logu(rs, max(lo, blo), min(hi, bhi))
    if mode == "edge":
        return float(lo if rs.uniform() < 0.5 else hi)
    return _logu(rs, lo, hi)


# --------------------------------------------------------------------------------------------------------------
# kernel / mean configurations
# --------------------------------------------------------------------------------------------------------------
def _set_matern(E, kernel, rs, mode):
    """sets parameters of a library Matern52 inside their box; returns (inv_bw array, cov scale) as READ BACK"""
    c = E.const
    keys = list(kernel.get_params().keys())
    values = {}
    for key in keys:
        if key.startswith("inv_bw"):
            values[key] = _draw(rs, c.INVERSE_BANDWIDTHS_LOWER_BOUND, c.INVERSE_BANDWIDTHS_UPPER_BOUND, mode, 0.3, 4.0)
        elif key == "covariance_scale":
            values[key] = _draw(rs, c.COVARIANCE_SCALE_LOWER_BOUND, c.COVARIANCE_SCALE_UPPER_BOUND, mode, 0.2, 5.0)
    kernel.set_params(values)
    return _read_matern(kernel)


def _read_matern(kernel):
    got = kernel.get_params()
    ibk = sorted((k for k in got if k.startswith("inv_bw")), key=lambda s: int(s[6:] or 0))
    ib = np.array([_f(got[k]) for k in ibk])
    if ib.size == 1:
        ib = np.full((kernel.dimension,), ib[0])
    cs = _f(got["covariance_scale"]) if "covariance_scale" in got else 1.0
    return ib, cs


def _new_matern(E, d, ARD, has_scale=True):
    k = E.K.Matern52(dimension=d, ARD=ARD, has_covariance_scale=has_scale)
    k.collect_params().initialize()
    return k


def build_kernel(E, kind, d, rs, mode):
    """returns dict(lib=<kernel or (kernel, scale)>, plain=<KernelFunction>, kref(X1,X2) incl. outer scale,
    kplain_ref(X1,X2) for the plain KernelFunction, eps, params, formula_clause, outer_scale, refresh())"""
    c = E.const
    out = {"kind": kind, "outer_scale": 1.0, "eps": EPS_LIB, "formula_clause": None, "gpr_ok": False, "mux": None}
    if kind in ("matern-iso", "matern-ard", "matern-noscale", "matern-tuple"):
        ARD = kind == "matern-ard" or (kind in ("matern-tuple", "matern-noscale") and rs.uniform() < 0.5)
        k = _new_matern(E, d, ARD, has_scale=(kind != "matern-noscale"))
        out["plain"] = k
        out["set"] = lambda: _set_matern(E, k, rs, mode)
        out["read"] = lambda: (lambda ib, cs: ({"inv_bw": ib.tolist(), "covariance_scale": cs, "ARD": ARD}, (lambda X1, X2: ref_matern52(X1, X2, ib, cs))))(*_read_matern(k))
        out["formula_clause"] = "matern52-equals-textbook"
        out["gpr_ok"] = kind != "matern-tuple"
        if kind == "matern-tuple":
            out["outer_scale"] = float([0.3, 2.5, 0.05, 7.0][rs.randint(4)])
    elif kind == "warped-matern":
        # configuration space: d encoded dimensions, possibly one binary categorical (encoded in ONE dimension,
        # not warped) -> warped coordinate ranges are the maximal runs of non-categorical dimensions
        cat_pos = None
        if d >= 2 and rs.uniform() < 0.6:
            cat_pos = int(rs.randint(d))
        space = {}
        for j in range(d):
            name = "p%d" % j
            space[name] = E.cs.choice(["u", "v"]) if j == cat_pos else E.cs.uniform(0.0, 1.0)
        hp_ranges = E.hpf.make_hyperparameter_ranges(space)
        assert hp_ranges.ndarray_size == d
        ranges, lo = [], None
        for j in range(d):
            if j == cat_pos:
                if lo is not None:
                    ranges.append((lo, j))
                    lo = None
            elif lo is None:
                lo = j
        if lo is not None:
            ranges.append((lo, d))
        inner = _new_matern(E, d, rs.uniform() < 0.5)
        k = E.W.kernel_with_warping(inner, hp_ranges)
        k.collect_params().initialize()
        out["plain"] = k
        out["expected_ranges"] = ranges
        out["cat_pos"] = cat_pos

        def _names(kidx, size, kind_):
            pref = "warping_" if len(ranges) == 1 else "warping%d_" % kidx
            return [pref + ("power_" + kind_ if size == 1 else "power_%s_%d" % (kind_, i)) for i in range(size)]

        def _set():
            _set_matern(E, inner, rs, mode)
            vals = dict(k.get_params())
            for kidx, (a, b) in enumerate(ranges):
                for kind_ in ("a", "b"):
                    for nm in _names(kidx, b - a, kind_):
                        vals[nm] = _draw(rs, c.WARPING_LOWER_BOUND, c.WARPING_UPPER_BOUND, mode, 0.5, 2.0)
            k.set_params(vals)

        def _read():
            got = k.get_params()
            ib_keys = sorted((q for q in got if q.startswith("kernel_inv_bw")), key=lambda s: int(s[13:] or 0))
            ib = np.array([_f(got[q]) for q in ib_keys])
            if ib.size == 1:
                ib = np.full((d,), ib[0])
            cs_ = _f(got["kernel_covariance_scale"])
            pa = [[_f(got[nm]) for nm in _names(kidx, b - a, "a")] for kidx, (a, b) in enumerate(ranges)]
            pb = [[_f(got[nm]) for nm in _names(kidx, b - a, "b")] for kidx, (a, b) in enumerate(ranges)]
            params = {"inv_bw": ib.tolist(), "covariance_scale": cs_, "ranges": [list(r) for r in ranges], "power_a": pa, "power_b": pb}
            return params, (lambda X1, X2: ref_matern52(ref_warp(X1, ranges, pa, pb), ref_warp(X2, ranges, pa, pb), ib, cs_))

        out["set"], out["read"] = _set, _read
        out["formula_clause"] = "warping-equals-formula"
        out["gpr_ok"] = True
        if rs.uniform() < 0.3:
            out["outer_scale"] = float([0.3, 2.5][rs.randint(2)])
            out["gpr_ok"] = False
    elif kind == "product":
        d1 = int(rs.randint(1, d))
        k1 = _new_matern(E, d1, rs.uniform() < 0.5)
        k2 = _new_matern(E, d - d1, rs.uniform() < 0.5)
        k = E.K.ProductKernelFunction(k1, k2)
        k.collect_params().initialize()
        out["plain"] = k
        out["set"] = lambda: (_set_matern(E, k1, rs, mode), _set_matern(E, k2, rs, mode))

        def _read():
            got = k.get_params()
            parts = []
            for pref, dd in (("kernel1_", d1), ("kernel2_", d - d1)):
                ib_keys = sorted((q for q in got if q.startswith(pref + "inv_bw")), key=lambda s: int(s[len(pref) + 6 :] or 0))
                ib = np.array([_f(got[q]) for q in ib_keys])
                if ib.size == 1:
                    ib = np.full((dd,), ib[0])
                parts.append((ib, _f(got[pref + "covariance_scale"])))
            params = {"d1": d1, "inv_bw1": parts[0][0].tolist(), "cs1": parts[0][1], "inv_bw2": parts[1][0].tolist(), "cs2": parts[1][1]}
            return params, (
                lambda X1, X2: ref_matern52(np.asarray(X1)[:, :d1], np.asarray(X2)[:, :d1], *parts[0])
                * ref_matern52(np.asarray(X1)[:, d1:], np.asarray(X2)[:, d1:], *parts[1])
            )

        out["read"] = _read
        out["formula_clause"] = "product-kernel-equals-product"
        out["gpr_ok"] = True
    elif kind == "expdecay":
        kx = _new_matern(E, d - 1, rs.uniform() < 0.5)
        mx = E.M.ScalarMeanFunction()
        mx.collect_params().initialize()
        variant = int(rs.randint(3))
        delta_fixed = [None, 0.0, 0.4][variant]
        k = E.K.ExponentialDecayResourcesKernelFunction(kx, mx, delta_fixed_value=delta_fixed)
        k.collect_params().initialize()
        out["plain"] = k
        out["resource_scale"] = float([1.0, 5.0][rs.randint(2)])

        def _set():
            _set_matern(E, kx, rs, mode)
            vals = dict(k.get_params())
            vals["alpha"] = _draw(rs, 1e-6, 250.0, mode, 0.3, 3.0)
            vals["mean_lam"] = _draw(rs, 1e-4, 50.0, mode, 0.2, 2.0)
            vals["gamma"] = _draw(rs, 1e-4, 1.0, mode, 0.2, 1.0)
            if delta_fixed is None:
                vals["delta"] = float(rs.uniform()) if mode != "edge" else float(rs.randint(2))
            vals["meanx_mean_value"] = float(rs.uniform(-1.0, 1.0))
            k.set_params(vals)

        def _read():
            got = k.get_params()
            ib_keys = sorted((q for q in got if q.startswith("kernelx_inv_bw")), key=lambda s: int(s[14:] or 0))
            ib = np.array([_f(got[q]) for q in ib_keys])
            if ib.size == 1:
                ib = np.full((d - 1,), ib[0])
            cs_ = _f(got["kernelx_covariance_scale"])
            al, ml, ga = _f(got["alpha"]), _f(got["mean_lam"]), _f(got["gamma"])
            de = _f(got["delta"]) if delta_fixed is None else float(delta_fixed)
            mv = _f(got["meanx_mean_value"])
            params = {"inv_bw": ib.tolist(), "covariance_scale": cs_, "alpha": al, "mean_lam": ml, "gamma": ga, "delta": de, "delta_fixed": delta_fixed is not None, "meanx": mv}
            kxf = lambda A, B: ref_matern52(A, B, ib, cs_)
            muf = lambda A: np.full((np.asarray(A).shape[0],), mv)
            out["mean_ref"] = lambda X: ref_expdecay_mean(X, muf, al, ml, ga, de)
            return params, (lambda X1, X2: ref_expdecay_kernel(X1, X2, kxf, muf, al, ml, ga, de))

        out["set"], out["read"] = _set, _read
        out["formula_clause"] = "expdecay-kernel-equals-formula"
        out["expdecay_mean"] = lambda: E.K.ExponentialDecayResourcesMeanFunction(k)
    elif kind == "own-rbf":
        ls = np.array([_draw(rs, 0.02, 50.0, mode, 0.2, 2.0) for _ in range(d)])
        amp = _draw(rs, 1e-3, 1e3, mode, 0.2, 5.0)
        k = E.OwnRBFKernel(d, ls, amp)
        out["plain"] = k
        out["set"] = lambda: None
        out["read"] = lambda: ({"lengthscales": ls.tolist(), "amplitude": amp}, (lambda X1, X2: own_rbf(X1, X2, ls, amp)))
        out["eps"] = EPS_OWN
        if rs.uniform() < 0.5:
            out["outer_scale"] = float([0.3, 2.5][rs.randint(2)])
    elif kind == "own-table":
        p = 6
        B = rs.normal(size=(p, int(rs.randint(2, p + 1))))
        amp = _draw(rs, 1e-3, 1e3, mode, 0.2, 5.0)
        T = B @ B.T + np.diag(rs.uniform(0.0, 0.05, size=p))
        T = amp * T / np.mean(np.diag(T))
        T = 0.5 * (T + T.T)
        zero_entry = bool(rs.uniform() < 0.4)
        if zero_entry:
            # positive SEMI-definite table with one point of zero prior variance: its posterior variance is 0, so the
            # MIN_POSTERIOR_VARIANCE floor binds there
            T[p - 1, :] = 0.0
            T[:, p - 1] = 0.0
        k = E.OwnTableKernel(T)
        out["plain"] = k
        out["set"] = lambda: None
        out["read"] = lambda: ({"table_size": p, "table_rank_plus_diag": int(B.shape[1]), "amplitude": amp, "zero_variance_entry": zero_entry}, (lambda X1, X2: own_table(X1, X2, T)))
        out["eps"] = EPS_OWN
        out["table_size"] = p
        if rs.uniform() < 0.5:
            out["outer_scale"] = float([0.3, 2.5][rs.randint(2)])
    elif kind in XDIAG_KINDS:
        _build_warped_xdiag(E, kind, d, rs, mode, out)
    else:
        raise ValueError(kind)
    return out


# --------------------------------------------------------------------------------------------------------------
# warped kernels around inner kernels whose diagonal depends on X (exponential-decay resource kernel, alone or
# inside a product / range kernel): WarpedKernel.diagonal must warp X before calling the inner diagonal
# --------------------------------------------------------------------------------------------------------------
XDIAG_KINDS = ("warped-expdecay", "warped-product-expdecay", "warped-range-expdecay")


class _Node:
    """lib kernel + setter + reader; read() -> dict(params, kfun(A, B), abs_scale, sqn)"""

    def __init__(self, lib, dim, setter, reader, resource_cols, label):
        self.lib, self.dim, self.set, self.read, self.resource_cols, self.label = lib, dim, setter, reader, resource_cols, label


def _node_matern(E, dd, rs, mode):
    ARD = bool(rs.uniform() < 0.5)
    k = _new_matern(E, dd, ARD)

    def _read():
        ib, cs_ = _read_matern(k)
        return {
            "params": {"inv_bw": ib.tolist(), "covariance_scale": cs_},
            "kfun": (lambda A, B: ref_matern52(A, B, ib, cs_)),
            "abs_scale": cs_,
            "sqn": float(np.sum(np.square(ib))),
        }

    return _Node(k, dd, (lambda: _set_matern(E, k, rs, mode)), _read, [], "matern52(%d%s)" % (dd, ",ARD" if ARD else ""))


def _node_expdecay(E, dd, rs, mode):
    """exponential-decay resource kernel over (x, r), x of dimension dd - 1, r last"""
    nx = _node_matern(E, dd - 1, rs, mode)
    mx = E.M.ScalarMeanFunction()
    mx.collect_params().initialize()
    delta_fixed = [None, 0.0, 0.4][int(rs.randint(3))]
    k = E.K.ExponentialDecayResourcesKernelFunction(nx.lib, mx, delta_fixed_value=delta_fixed)
    k.collect_params().initialize()

    def _set():
        nx.set()
        vals = dict(k.get_params())
        vals["alpha"] = _draw(rs, 1e-6, 250.0, mode, 0.3, 3.0)
        vals["mean_lam"] = _draw(rs, 1e-4, 50.0, mode, 0.2, 2.0)
        vals["gamma"] = _draw(rs, 1e-4, 1.0, mode, 0.2, 1.0)
        if delta_fixed is None:
            vals["delta"] = float(rs.uniform()) if mode != "edge" else float(rs.randint(2))
        vals["meanx_mean_value"] = float(rs.uniform(-1.0, 1.0))
        k.set_params(vals)

    def _read():
        got = k.get_params()
        rx = nx.read()
        al, ml, ga = _f(got["alpha"]), _f(got["mean_lam"]), _f(got["gamma"])
        de = _f(got["delta"]) if delta_fixed is None else float(delta_fixed)
        mv = _f(got["meanx_mean_value"])
        muf = lambda A: np.full((np.asarray(A).shape[0],), mv)
        params = {"kernelx": rx["params"], "alpha": al, "mean_lam": ml, "gamma": ga, "delta": de, "delta_fixed": delta_fixed is not None, "meanx": mv}
        return {
            "params": params,
            "kfun": (lambda A, B: ref_expdecay_kernel(A, B, rx["kfun"], muf, al, ml, ga, de)),
            "abs_scale": max(rx["abs_scale"], (ga + abs(mv)) ** 2),
            "sqn": rx["sqn"],
        }

    return _Node(k, dd, _set, _read, [dd - 1], "expdecay(%s)" % nx.label)


def _node_product(E, n1, n2):
    k = E.K.ProductKernelFunction(n1.lib, n2.lib)
    k.collect_params().initialize()
    d1 = n1.dim

    def _read():
        r1, r2 = n1.read(), n2.read()
        return {
            "params": {"kernel1": r1["params"], "kernel2": r2["params"]},
            "kfun": (lambda A, B: r1["kfun"](np.asarray(A)[:, :d1], np.asarray(B)[:, :d1]) * r2["kfun"](np.asarray(A)[:, d1:], np.asarray(B)[:, d1:])),
            "abs_scale": r1["abs_scale"] * r2["abs_scale"],
            "sqn": max(r1["sqn"], r2["sqn"]),
        }

    return _Node(k, n1.dim + n2.dim, (lambda: (n1.set(), n2.set())), _read, list(n1.resource_cols) + [d1 + c for c in n2.resource_cols], "product(%s,%s)" % (n1.label, n2.label))


def _node_range(E, dim, node, start):
    k = E.K.RangeKernelFunction(dim, node.lib, start)
    k.collect_params().initialize()
    a, b = start, start + node.dim

    def _read():
        r = node.read()
        return dict(r, kfun=(lambda A, B: r["kfun"](np.asarray(A)[:, a:b], np.asarray(B)[:, a:b])))

    return _Node(k, dim, node.set, _read, [start + c for c in node.resource_cols], "range(%d,%s,start=%d)" % (dim, node.label, start))


def _build_warped_xdiag(E, kind, d, rs, mode, out):
    c = E.const
    if kind == "warped-expdecay":
        assert d >= 2
        inner = _node_expdecay(E, d, rs, mode)
    elif kind == "warped-product-expdecay":
        assert d >= 3
        d1 = int(rs.randint(1, d - 1))  # the other factor has dimension d - d1 >= 2 resp. d1 + 1 >= 2
        if rs.uniform() < 0.5:
            inner = _node_product(E, _node_matern(E, d1, rs, mode), _node_expdecay(E, d - d1, rs, mode))
        else:
            inner = _node_product(E, _node_expdecay(E, d - d1, rs, mode), _node_matern(E, d1, rs, mode))
    else:
        assert d >= 3
        dk = int(rs.randint(2, d))  # 2 .. d - 1
        start = int(rs.randint(0, d - dk + 1))
        inner = _node_range(E, d, _node_expdecay(E, dk, rs, mode), start)
    assert inner.dim == d and len(inner.resource_cols) == 1
    assert inner.lib.diagonal_depends_on_X(), "inner kernel diagonal must depend on X"
    rc = inner.resource_cols[0]
    # warped coordinate ranges: everything / only the resource coordinate / two separate ranges, one of them the
    # resource coordinate / a run containing the resource coordinate / (rarely) only coordinates the diagonal ignores
    layouts = [[(0, d)], [(rc, rc + 1)], [(0, d)]]
    others = [j for j in range(d) if j != rc]
    if d >= 3:
        o = others[int(rs.randint(len(others)))]
        layouts.append(sorted([(o, o + 1), (rc, rc + 1)]) if abs(o - rc) > 1 else [(min(o, rc), max(o, rc) + 1)])
    lo_ = int(rs.randint(0, rc + 1))
    hi_ = int(rs.randint(rc + 1, d + 1))
    layouts.append([(lo_, hi_)])
    if rs.uniform() < 0.15:
        o = others[int(rs.randint(len(others)))]
        layouts = [[(o, o + 1)]]
    ranges = [tuple(r) for r in layouts[int(rs.randint(len(layouts)))]]
    warpings = [E.W.Warping(d, r) for r in ranges]
    k = E.W.WarpedKernel(inner.lib, warpings)
    k.collect_params().initialize()
    assert k.diagonal_depends_on_X()
    out["plain"] = k
    out["expected_ranges"] = [tuple(r) for r in ranges]
    out["xdiag"] = True
    out["resource_col"] = rc
    out["resource_warped"] = any(a <= rc < b for a, b in ranges)

    def _names(kidx, size, kind_):
        pref = "warping_" if len(ranges) == 1 else "warping%d_" % kidx
        return [pref + ("power_" + kind_ if size == 1 else "power_%s_%d" % (kind_, i)) for i in range(size)]

    def _set():
        inner.set()
        vals = dict(k.get_params())
        for kidx, (a, b) in enumerate(ranges):
            for kind_ in ("a", "b"):
                for nm in _names(kidx, b - a, kind_):
                    assert nm in vals, (nm, sorted(vals))
                    vals[nm] = _draw(rs, c.WARPING_LOWER_BOUND, c.WARPING_UPPER_BOUND, mode, 0.5, 2.0)
        k.set_params(vals)

    def _read():
        got = k.get_params()
        ri = inner.read()
        pa = [[_f(got[nm]) for nm in _names(kidx, b - a, "a")] for kidx, (a, b) in enumerate(ranges)]
        pb = [[_f(got[nm]) for nm in _names(kidx, b - a, "b")] for kidx, (a, b) in enumerate(ranges)]
        wr = [(kidx, rc - a) for kidx, (a, b) in enumerate(ranges) if a <= rc < b]
        params = {
            "structure": "warped(%s)" % inner.label,
            "inner": ri["params"],
            "resource_coordinate": rc,
            "ranges": [list(r) for r in ranges],
            "power_a": pa,
            "power_b": pb,
            "resource_warping": [[pa[i][j], pb[i][j]] for i, j in wr],
            "abs_scale": ri["abs_scale"],
            "sqn": ri["sqn"],
        }
        kin = ri["kfun"]
        return params, (lambda X1, X2: kin(ref_warp(X1, ranges, pa, pb), ref_warp(X2, ranges, pa, pb)))

    out["set"], out["read"] = _set, _read
    out["formula_clause"] = "warping-equals-formula"
    out["gpr_ok"] = True
    if rs.uniform() < 0.3:
        out["outer_scale"] = float([0.3, 2.5][rs.randint(2)])
        out["gpr_ok"] = False


def build_mean(E, which, d, rs, kcfg):
    """returns (lib mean function, ref(X) -> (n,), description)"""
    if which == "zero":
        m = E.M.ZeroMeanFunction()
        m.collect_params().initialize()
        return m, (lambda X: np.zeros((np.asarray(X).shape[0],))), "zero", None
    if which == "scalar":
        m = E.M.ScalarMeanFunction()
        m.collect_params().initialize()
        val = float([rs.uniform(-3, 3), 0.0, 50.0, rs.normal()][rs.randint(4)])

        def setter():
            m.set_mean_value(val)

        return m, None, "scalar", setter
    if which == "own-linear":
        a = float(rs.uniform(-2, 2))
        b = rs.uniform(-2, 2, size=d)
        m = E.OwnLinearMean(a, b)
        return m, (lambda X: a + np.asarray(X, dtype=np.float64) @ b), "own-linear(%.3g,%s)" % (a, np.round(b, 3).tolist()), None
    if which == "expdecay":
        m = kcfg["expdecay_mean"]()
        return m, "expdecay", "expdecay-mean", None
    raise ValueError(which)


# --------------------------------------------------------------------------------------------------------------
# data
# --------------------------------------------------------------------------------------------------------------
def make_inputs(rs, n, n_test, d, data_mode, kcfg):
    if kcfg["kind"] == "own-table":
        p = kcfg["table_size"]
        X = rs.randint(p, size=(n, 1)) / float(p - 1)
        Xs = rs.randint(p, size=(n_test, 1)) / float(p - 1)
        return X, Xs
    X = rs.uniform(size=(n, d))
    Xs = rs.uniform(size=(n_test, d))
    if data_mode == "corners":
        mask = rs.uniform(size=X.shape) < 0.4
        X[mask] = np.round(X[mask])
        masks = rs.uniform(size=Xs.shape) < 0.4
        Xs[masks] = np.round(Xs[masks])
    if data_mode in ("duplicates", "near-duplicates", "mixed"):
        for i in range(1, n):
            u = rs.uniform()
            if u < 0.35:
                j = int(rs.randint(i))
                if data_mode == "duplicates" or (data_mode == "mixed" and rs.uniform() < 0.5):
                    X[i] = X[j]
                else:
                    X[i] = np.clip(X[j] + rs.choice([1e-9, 1e-7, 1e-5, 1e-3]) * rs.normal(size=d), 0.0, 1.0)
        for i in range(n_test):
            u = rs.uniform()
            if u < 0.3:
                X_src = X[int(rs.randint(n))]
                Xs[i] = X_src if rs.uniform() < 0.5 else np.clip(X_src + 1e-6 * rs.normal(size=d), 0.0, 1.0)
            elif u < 0.5 and i > 0:
                Xs[i] = np.clip(Xs[int(rs.randint(i))] + rs.choice([0.0, 1e-7, 1e-3]) * rs.normal(size=d), 0.0, 1.0)
    elif n_test >= 2:
        # correlated test points: make sure the posterior covariance is clearly non-diagonal
        Xs[1] = np.clip(Xs[0] + 0.05 * rs.normal(size=d), 0.0, 1.0)
    if kcfg["kind"] == "warped-matern" and kcfg.get("cat_pos") is not None:
        cp = kcfg["cat_pos"]
        X[:, cp] = np.round(X[:, cp])
        Xs[:, cp] = np.round(Xs[:, cp])
    if kcfg["kind"] == "expdecay":
        X[:, -1] *= kcfg["resource_scale"]
        Xs[:, -1] *= kcfg["resource_scale"]
    return X, Xs


# --------------------------------------------------------------------------------------------------------------
# the checks for one case
# --------------------------------------------------------------------------------------------------------------
def run_case(E, ctx, rs, case_id, kind, n, d, n_test, m, data_mode, mode, mean_kind, do_gpr):
    pu, ps = E.pu, E.ps
    kcfg = build_kernel(E, kind, d, rs, mode)
    mean_fn, mean_ref, mean_desc, mean_setter = build_mean(E, mean_kind, d, rs, kcfg)
    eps = kcfg["eps"]
    model = None
    if do_gpr and kcfg["gpr_ok"]:
        # constructing the model re-initialises all parameters, so it must happen BEFORE they are set
        model = E.gpr.GaussianProcessRegression(kernel=kcfg["plain"], mean=mean_fn, initial_noise_variance=1e-3, random_seed=0)
    kcfg["set"]()
    if mean_setter is not None:
        mean_setter()
    params, kplain_ref = kcfg["read"]()
    if mean_kind == "scalar":
        mv = _f(mean_fn.get_params()["mean_value"])
        mean_ref = lambda X: np.full((np.asarray(X).shape[0],), mv)
        mean_desc = "scalar(%.6g)" % mv
    elif mean_kind == "expdecay":
        mean_ref = kcfg["mean_ref"]
    if kcfg.get("xdiag") and any(abs(a_ - 1.0) > 0.05 or abs(b_ - 1.0) > 0.05 for a_, b_ in params["resource_warping"]):
        # inner diagonal depends on X AND the coordinate it depends on is warped with a non-identity warping
        ctx.xdiag_effective = getattr(ctx, "xdiag_effective", 0) + 1
    osc = kcfg["outer_scale"]
    plain = kcfg["plain"]
    # plain KernelFunction, or the documented tuple form (kernel, covariance_scale)
    lib_kernel = plain if osc == 1.0 else (plain, np.array([osc]))
    kref = lambda X1, X2: osc * kplain_ref(X1, X2)

    X, Xs = make_inputs(rs, n, n_test, d, data_mode, kcfg)
    yscale = float([1.0, 1.0, 0.01, 30.0][rs.randint(4)])
    Y = yscale * rs.normal(size=(n, m)) + float(rs.uniform(-1, 1))

    K = kref(X, X)
    K = 0.5 * (K + K.T)
    Ks = kref(X, Xs)
    Kss = kref(Xs, Xs)
    Kss = 0.5 * (Kss + Kss.T)
    mX, mXs = mean_ref(X), mean_ref(Xs)

    # noise variance inside its box, raised until eps * cond(K + s2 I) <= CAP
    c = E.const
    s2 = _draw(rs, c.NOISE_VARIANCE_LOWER_BOUND, c.NOISE_VARIANCE_UPPER_BOUND, mode if mode != "edge" else "box", 1e-4, 1e-1)
    if mode != "benign" and rs.uniform() < 0.7:
        s2 = _logu(rs, 1e-9, 1e-2) * float(np.mean(np.diag(K)))
        s2 = min(max(s2, c.NOISE_VARIANCE_LOWER_BOUND), c.NOISE_VARIANCE_UPPER_BOUND)
    cond_max = CAP / eps
    evK = np.linalg.eigvalsh(K)
    while (max(evK[-1], 0.0) + s2) / (max(evK[0], 0.0) + s2) > 0.5 * cond_max and s2 < c.NOISE_VARIANCE_UPPER_BOUND:
        s2 = min(s2 * 10.0, c.NOISE_VARIANCE_UPPER_BOUND)
    s2arr = np.array([s2])

    eps_eff = eps * (1.0 + 1e-5 * _sqn(kcfg, params))
    Xall = np.concatenate([X, Xs], axis=0)
    # absolute element-wise error of composite library kernels (differences of O(c) terms): ~ few ulp of c
    abs_scale = max(
        float(np.max(np.diag(kplain_ref(Xall, Xall)))),
        float(params.get("covariance_scale", 0.0)),
        (float(params.get("gamma", 0.0)) + abs(float(params.get("meanx", 0.0)))) ** 2,
        float(params.get("abs_scale", 0.0)),
    )
    kabs = 0.0 if eps == EPS_OWN else 1e-13 * osc * abs_scale
    ref = Dense(K, Ks, Kss, s2, mX, mXs, Y, eps_eff, kabs)
    ctx.case = {
        "id": case_id,
        "kind": kind,
        "n": n,
        "d": d,
        "n_test": n_test,
        "m": m,
        "mean": mean_desc,
        "params": dict(params, outer_covariance_scale=osc, tuple_form=isinstance(lib_kernel, tuple), param_mode=mode),
        "noise_variance": s2,
        "cond": ref.cond,
        "data_mode": data_mode,
    }
    ctx.clause = None
    kabs_plain = 1e-13 * abs_scale

    def ktol(A, B):
        """|k_lib - k_textbook|: NUMERICAL_JITTER inside the square root (<= ~1e-9 relative, twice for products),
        round-off of the expanded squared distance (grows with the squared inverse bandwidths)"""
        da = np.maximum(np.diag(kplain_ref(A, A)), 0.0)
        db = np.maximum(np.diag(kplain_ref(B, B)), 0.0)
        return 0.25 * eps_eff * np.sqrt(np.outer(da, db)) + kabs_plain

    ctx.clause = kcfg["formula_clause"] or "kernel-diagonal-consistent"
    # ---- kernel formula / diagonal ------------------------------------------------------------------------
    fc = kcfg["formula_clause"]
    Klib = np.asarray(plain(Xall, Xall))
    if fc is not None:
        if kcfg.get("expected_ranges") is not None:
            got_ranges = [(int(w.lower), int(w.upper)) for w in plain.warpings] if hasattr(plain, "warpings") else []
            ctx.check_bool(fc, "warped-coordinate-ranges", got_ranges == kcfg["expected_ranges"], {"got": got_ranges, "expected": kcfg["expected_ranges"]})
        ctx.check(fc, "k(Xall,Xall)", Klib, kplain_ref(Xall, Xall), ktol(Xall, Xall))
        ctx.check(fc, "k(X,X*)", np.asarray(plain(X, Xs)), kplain_ref(X, Xs), ktol(X, Xs))
        if kind == "expdecay" and mean_kind == "expdecay":
            ctx.check(fc, "mean_function", np.reshape(np.asarray(mean_fn(Xall)), (-1,)), mean_ref(Xall), 1e-9 * (1.0 + np.abs(mean_ref(Xall))))
    dg = np.reshape(np.asarray(plain.diagonal(Xall)), (-1,))
    ctx.check("kernel-diagonal-consistent", "diagonal(X) vs diag(k(X,X))", dg, np.diag(Klib), np.diag(ktol(Xall, Xall)))
    ctx.check("kernel-diagonal-consistent", "diagonal(X) vs reference", dg, np.diag(kplain_ref(Xall, Xall)), np.diag(ktol(Xall, Xall)))

    # ---- posterior state from scratch -----------------------------------------------------------------------
    ctx.clause = "cholesky-factor-reconstructs-system-matrix"
    state = ps.GaussProcPosteriorState(features=X, targets=Y, mean=mean_fn, kernel=lib_kernel, noise_variance=s2arr)
    L = np.asarray(state.chol_fact)
    ctx.clause = "predictive-mean-equals-dense"
    ctx.check("cholesky-factor-reconstructs-system-matrix", "L L^T vs K + s2 I", L @ L.T, ref.A, ref.tol_A)
    ctx.check_bool("cholesky-factor-reconstructs-system-matrix", "L lower triangular, positive diagonal", bool(np.all(np.triu(L, 1) == 0) and np.all(np.diag(L) > 0)))
    means, variances = state.predict(Xs)
    means, variances = np.asarray(means), np.asarray(variances)
    ctx.check("predictive-mean-equals-dense", "state.predict", means, ref.means, ref.tol_mean)
    ctx.check("predictive-variance-equals-dense", "state.predict", variances, ref.var, ref.tol_var)
    prior = osc * np.diag(kplain_ref(Xs, Xs))
    ctx.check_bool(
        "variance-between-floor-and-prior",
        "state.predict",
        bool(variances.shape == (n_test,) and np.all(variances >= FLOOR) and np.all(variances <= ref.prior_upper)),
        {"variances": variances.tolist(), "prior": prior.tolist(), "floor": FLOOR},
    )
    # low-level entry points
    L2, P2 = pu.cholesky_computations(X, Y, mean_fn, lib_kernel, s2arr)
    mm, vv = pu.predict_posterior_marginals(X, mean_fn, lib_kernel, L2, P2, Xs)
    ctx.check("predictive-mean-equals-dense", "predict_posterior_marginals", np.asarray(mm), ref.means, ref.tol_mean)
    ctx.check("predictive-variance-equals-dense", "predict_posterior_marginals", np.asarray(vv), ref.var, ref.tol_var)

    # ---- negative log marginal likelihood ---------------------------------------------------------------------
    ctx.clause = "nlml-equals-dense"
    st1 = state if m == 1 else ps.GaussProcPosteriorState(features=X, targets=Y[:, :1], mean=mean_fn, kernel=lib_kernel, noise_variance=s2arr)
    ctx.check("nlml-equals-dense", "state.neg_log_likelihood", _f(st1.neg_log_likelihood()), ref.nlml, ref.tol_nlml)
    ctx.check("nlml-equals-dense", "negative_log_marginal_likelihood", _f(pu.negative_log_marginal_likelihood(L2, P2[:, :1])), ref.nlml, ref.tol_nlml)

    # ---- fantasy columns ----------------------------------------------------------------------------------------
    if m > 1:
        ctx.clause = "fantasy-columns-independent"
        for j in range(m):
            sj = ps.GaussProcPosteriorState(features=X, targets=Y[:, j : j + 1], mean=mean_fn, kernel=lib_kernel, noise_variance=s2arr)
            mj, vj = sj.predict(Xs)
            ctx.check("fantasy-columns-independent", "mean column %d alone" % j, np.asarray(mj)[:, 0], means[:, j], ref.tol_round_mean[:, j])
            ctx.check("fantasy-columns-independent", "variance column %d alone" % j, np.asarray(vj), variances, 1e-14 * np.abs(variances))
        ctx.check_bool("fantasy-columns-independent", "shapes", means.shape == (n_test, m) and variances.shape == (n_test,) and state.num_fantasies == m)

    # ---- joint samples ----------------------------------------------------------------------------------------------
    ctx.clause = "joint-sample-covariance-equals-dense"
    cov_ref = ref.cov + JOINT_JITTER * np.eye(n_test)
    S = n_test + 2
    zlast = rs.normal(size=(n_test, m))
    draws = []
    for s in range(S):
        a = np.zeros((n_test, m, 1))
        for j in range(m):
            if s < n_test:
                a[(s + j) % n_test, j, 0] = 1.0
            elif s == n_test + 1:
                a[:, j, 0] = zlast[:, j]
        draws.append(a)
    for entry in ("state.sample_joint", "sample_posterior_joint"):
        stub = StubRandomState(draws)
        if entry == "state.sample_joint":
            smp = np.asarray(state.sample_joint(Xs, num_samples=S, random_state=stub))
        else:
            smp = np.asarray(pu.sample_posterior_joint(X, mean_fn, lib_kernel, L2, P2, Xs, stub, num_samples=S))
        want_shape = (n_test, S) if m == 1 else (n_test, m, S)
        if not ctx.check_bool("joint-sample-covariance-equals-dense", entry + " shape", smp.shape == want_shape and stub.calls == S, {"shape": list(smp.shape), "expected": list(want_shape)}):
            continue
        smp = smp.reshape(n_test, m, S)
        for j in range(m):
            mu = smp[:, j, n_test]
            ctx.check("joint-sample-covariance-equals-dense", entry + " mean (z=0) col %d" % j, mu, ref.means[:, j], ref.tol_mean[:, j])
            Lobs = np.zeros((n_test, n_test))
            for s in range(n_test):
                Lobs[:, (s + j) % n_test] = smp[:, j, s] - mu
            recon = 1e-12 * (np.max(np.abs(cov_ref)) + np.max(np.abs(mu)) * np.max(np.abs(Lobs)))
            ctx.check("joint-sample-covariance-equals-dense", entry + " sum_k (L e_k)(L e_k)^T col %d" % j, Lobs @ Lobs.T, cov_ref, ref.tol_cov + recon)
            lin = smp[:, j, n_test + 1] - mu
            ctx.check("joint-sample-covariance-equals-dense", entry + " linear in z col %d" % j, lin, Lobs @ zlast[:, j], 1e-10 * (np.max(np.abs(Lobs)) * (1.0 + np.max(np.abs(zlast))) + np.max(np.abs(mu))))
    if n_test >= 2:
        off = cov_ref - np.diag(np.diag(cov_ref))
        if np.max(np.abs(off)) > 1e-2 * np.max(np.diag(cov_ref)):
            ctx.nondiag_joint = getattr(ctx, "nondiag_joint", 0) + 1

    # ---- marginal samples ---------------------------------------------------------------------------------------------
    ctx.clause = "marginal-samples-use-marginal-std"
    zm = rs.uniform(0.5, 2.0, size=(n_test, m, 1)) * rs.choice([-1.0, 1.0], size=(n_test, m, 1))
    mdraws = [np.zeros((n_test, m, 1)), zm]
    for entry in ("state.sample_marginals", "sample_posterior_marginals"):
        stub = StubRandomState(mdraws)
        if entry == "state.sample_marginals":
            smp = np.asarray(state.sample_marginals(Xs, num_samples=2, random_state=stub))
        else:
            smp = np.asarray(pu.sample_posterior_marginals(X, mean_fn, lib_kernel, L2, P2, Xs, stub, num_samples=2))
        want_shape = (n_test, 2) if m == 1 else (n_test, m, 2)
        if not ctx.check_bool("marginal-samples-use-marginal-std", entry + " shape", smp.shape == want_shape and stub.calls == 2, {"shape": list(smp.shape), "expected": list(want_shape)}):
            continue
        smp = smp.reshape(n_test, m, 2)
        ctx.check("marginal-samples-use-marginal-std", entry + " mean (z=0)", smp[:, :, 0], ref.means, ref.tol_mean)
        dv = (smp[:, :, 1] - smp[:, :, 0]) / zm[:, :, 0]
        sd = np.sqrt(ref.var)[:, None] * np.ones((1, m))
        tol_sd = np.minimum(np.sqrt(ref.tol_var), ref.tol_var / np.sqrt(ref.var))[:, None] + 1e-10 * (sd + np.abs(ref.means))
        ctx.check("marginal-samples-use-marginal-std", entry + " (sample - mean)/z == std", dv, sd, tol_sd)

    # ---- incremental updates ------------------------------------------------------------------------------------------
    if n >= 2:
        ctx.clause = "incremental-update-equals-recompute"
        n_upd = int(min(n - 1, 1 + rs.randint(3)))
        n0 = n - n_upd
        incremental_checks(E, ctx, rs, X, Xs, Y, n0, mean_fn, lib_kernel, s2arr, K, kref, mean_ref, s2, eps_eff, m, kabs)
        ctx.clause = CL_ALIAS
        aliasing_checks(E, ctx, rs, X, Xs, Y, n0, mean_fn, plain, osc, K, kref, mean_ref, s2, eps_eff, m, kabs)

    # ---- GaussianProcessRegression ---------------------------------------------------------------------------------------
    if model is not None:
        ctx.clause = "gp-regression-predict-equals-dense"
        pd = dict(model.get_params())
        pd["noise_variance"] = s2
        model.set_params(pd)
        # re-read: set_params round-trips every value through its encoding
        params2, kplain_ref2 = kcfg["read"]()
        s2b = _f(model.get_params()["noise_variance"])
        if mean_kind == "scalar":
            mvb = _f(model.get_params()["mean_mean_value"])
            mref2 = lambda X_: np.full((np.asarray(X_).shape[0],), mvb)
        else:
            mref2 = mean_ref
        K2 = kplain_ref2(X, X)
        ref2 = Dense(0.5 * (K2 + K2.T), kplain_ref2(X, Xs), kplain_ref2(Xs, Xs), s2b, mref2(X), mref2(Xs), Y, eps_eff, kabs)
        model.recompute_states({"features": X.copy(), "targets": Y.copy()})
        preds = model.predict(Xs)
        ok = ctx.check_bool("gp-regression-predict-equals-dense", "one state", len(preds) == 1)
        if ok:
            gm, gv = np.asarray(preds[0][0]), np.asarray(preds[0][1])
            ctx.check("gp-regression-predict-equals-dense", "means", gm.reshape(n_test, -1), ref2.means, ref2.tol_mean)
            ctx.check("gp-regression-predict-equals-dense", "variances", gv, ref2.var, ref2.tol_var)
            ctx.check_bool("gp-regression-predict-equals-dense", "mean shape (n_test,) for m=1 else (n_test,m)", gm.shape == ((n_test,) if m == 1 else (n_test, m)))
        if m == 1:
            ctx.check("gp-regression-predict-equals-dense", "likelihood(data) == NLML", _f(model.likelihood({"features": X.copy(), "targets": Y.copy()})), ref2.nlml, ref2.tol_nlml)
    return ref


def _sqn(kcfg, params):
    """largest squared scaled distance (inflates the kernel tolerance for huge inverse bandwidths)"""
    best = float(params.get("sqn", 0.0))
    for key in ("inv_bw", "inv_bw1", "inv_bw2"):
        if key in params:
            best = max(best, float(np.sum(np.square(params[key]))))
    return best


def incremental_checks(E, ctx, rs, X, Xs, Y, n0, mean_fn, lib_kernel, s2arr, K, kref, mean_ref, s2, eps, m, kabs):
    pu, ps = E.pu, E.ps
    n = X.shape[0]
    CL = "incremental-update-equals-recompute"

    def dense_for(t, Yt):
        Xt = X[:t]
        return Dense(K[:t, :t], kref(Xt, Xs), _sym(kref(Xs, Xs)), s2, mean_ref(Xt), mean_ref(Xs), Yt, eps, kabs)

    def compare(tag, st, t, Yt):
        r = dense_for(t, Yt)
        mi, vi = st.predict(Xs)
        mi, vi = np.asarray(mi), np.asarray(vi)
        ctx.check(CL, tag + " mean vs dense", mi, r.means, r.tol_mean)
        ctx.check(CL, tag + " variance vs dense", vi, r.var, r.tol_var)
        sc = ps.GaussProcPosteriorState(features=X[:t], targets=Yt, mean=mean_fn, kernel=lib_kernel, noise_variance=s2arr)
        ms, vs = sc.predict(Xs)
        ctx.check(CL, tag + " mean vs library recompute", mi, np.asarray(ms), r.tol_mean)
        ctx.check(CL, tag + " variance vs library recompute", vi, np.asarray(vs), r.tol_var)
        Lt = np.asarray(st.chol_fact)
        ctx.check(CL, tag + " L L^T vs K + s2 I", Lt @ Lt.T, r.A, r.tol_A)
        ctx.check_bool(CL, tag + " shapes", st.num_data == t and np.asarray(st.pred_mat).shape == (t, Yt.shape[1]) and np.asarray(st.features).shape == X[:t].shape)
        ctx.check_bool(
            "variance-between-floor-and-prior",
            tag,
            bool(np.all(vi >= FLOOR) and np.all(vi <= r.prior_upper)),
            {"variances": vi.tolist(), "prior": r.kss.tolist()},
        )
        if Yt.shape[1] == 1:
            ctx.check(CL, tag + " NLML vs dense", _f(st.neg_log_likelihood()), r.nlml, r.tol_nlml)
        return r

    # A: update() with the given targets (m columns), several successive updates
    st = ps.IncrementalUpdateGPPosteriorState(features=X[:n0], targets=Y[:n0], mean=mean_fn, kernel=lib_kernel, noise_variance=s2arr)
    for t in range(n0, n):
        st_old = st
        st = st.update(X[t : t + 1], Y[t : t + 1])
        compare("update#%d" % (t - n0 + 1), st, t + 1, Y[: t + 1])
        ctx.check_bool(CL, "update returns new object, old state unchanged", st is not st_old and st_old.num_data == t)

    # B: expand_fantasies, then fantasy rows
    if m > 1:
        st = ps.IncrementalUpdateGPPosteriorState(features=X[:n0], targets=Y[:n0, :1], mean=mean_fn, kernel=lib_kernel, noise_variance=s2arr).expand_fantasies(m)
        Yb = np.tile(Y[:n0, :1], (1, m))
        compare("expand_fantasies", st, n0, Yb)
        for t in range(n0, n):
            st = st.update(X[t : t + 1], Y[t : t + 1])
            Yb = np.concatenate([Yb, Y[t : t + 1]], axis=0)
            compare("expand+update#%d" % (t - n0 + 1), st, t + 1, Yb)

    # C: sample_and_update with a stubbed random_state
    st = ps.IncrementalUpdateGPPosteriorState(features=X[:n0], targets=Y[:n0], mean=mean_fn, kernel=lib_kernel, noise_variance=s2arr)
    Yc = Y[:n0].copy()
    for t in range(n0, n):
        z = rs.uniform(0.5, 2.0, size=(1, m)) * rs.choice([-1.0, 1.0], size=(1, m))
        mask = None
        if m > 1 and rs.uniform() < 0.6:
            mask = rs.uniform(size=m) < 0.5
        xnew = X[t : t + 1]
        r0 = Dense(K[:t, :t], kref(X[:t], xnew), kref(xnew, xnew), s2, mean_ref(X[:t]), mean_ref(xnew), Yc, eps, kabs)
        zeff = z.copy()
        if mask is not None:
            zeff[0, mask] = 0.0
        sd = math.sqrt(r0.var[0])
        want = r0.means + zeff * sd
        tol_t = r0.tol_mean + np.abs(zeff) * min(math.sqrt(r0.tol_var[0]), r0.tol_var[0] / sd) + 1e-10 * (sd + np.abs(want))
        stub = StubRandomState([z])
        target, st = st.sample_and_update(xnew[0] if rs.uniform() < 0.5 else xnew, mean_impute_mask=mask, random_state=stub)
        target = np.asarray(target)
        ctx.check(CL, "sample_and_update#%d target = mean + z * std" % (t - n0 + 1), target, want, tol_t, {"mean_impute_mask": None if mask is None else mask.tolist()})
        if target.shape != (1, m):
            break
        Yc = np.concatenate([Yc, target], axis=0)
        compare("sample_and_update#%d" % (t - n0 + 1), st, t + 1, Yc)

    # D: low-level cholesky_update (lvec computed inside)
    L0, P0 = pu.cholesky_computations(X[:n0], Y[:n0], mean_fn, lib_kernel, s2arr)
    L1, P1 = pu.cholesky_update(X[:n0], mean_fn, lib_kernel, L0, P0, s2arr, X[n0 : n0 + 1], Y[n0 : n0 + 1])
    L1, P1 = np.asarray(L1), np.asarray(P1)
    r = dense_for(n0 + 1, Y[: n0 + 1])
    mm, vv = pu.predict_posterior_marginals(X[: n0 + 1], mean_fn, lib_kernel, L1, P1, Xs)
    ctx.check(CL, "cholesky_update mean vs dense", np.asarray(mm), r.means, r.tol_mean)
    ctx.check(CL, "cholesky_update variance vs dense", np.asarray(vv), r.var, r.tol_var)
    ctx.check(CL, "cholesky_update L L^T vs K + s2 I", L1 @ L1.T, r.A, r.tol_A)
    ctx.check(CL, "cholesky_update NLML vs dense", _f(pu.negative_log_marginal_likelihood(L1, P1[:, :1])), r.nlml, r.tol_nlml)


def _sym(M):
    return 0.5 * (M + M.T)


CL_ALIAS = "state-does-not-alias-the-caller's-arrays"


def _scribble(*arrays):
    """the caller recycles its buffers: overwrite IN PLACE with different (finite, for the noise / scale positive) values"""
    for a in arrays:
        if a is None:
            continue
        if a.dtype == bool:
            a[...] = ~a
        else:
            a[...] = np.abs(a) * 37.0 + 0.3


def aliasing_checks(E, ctx, rs, X, Xs, Y, n0, mean_fn, plain, osc, K, kref, mean_ref, s2, eps, m, kabs):
    """Every array handed to the posterior-state constructors / update methods / predict (features, targets, noise
    variance, covariance scale of the tuple form, new feature / target rows, fantasy rows, mean_impute_mask, test
    features, the prescribed normal draws) and every array handed back (sampled targets) is overwritten in place by
    the caller right after the call, before the next operation.  A CONTROL run performs the same sequence of library
    calls on private copies which are never touched.
      clause CL_ALIAS: the overwritten run equals the control run (same code, same values: round-off free) and the
                       stored features / noise variance equal the original values;
      dense clauses:   the overwritten run equals the dense reference computed from the ORIGINAL values
                       (incremental-update clause for incremental states, incl. a library recompute from scratch;
                       predictive-mean / -variance clauses for the plain state)."""
    pu, ps = E.pu, E.ps
    n = X.shape[0]
    CLI = "incremental-update-equals-recompute"
    Kss = _sym(kref(Xs, Xs))
    s2ref = np.array([s2])

    def ref_kernel():
        return plain if osc == 1.0 else (plain, np.array([osc]))

    def dense_for(t, Yt):
        return Dense(K[:t, :t], kref(X[:t], Xs), Kss, s2, mean_ref(X[:t]), mean_ref(Xs), Yt, eps, kabs)

    def same(tag, got, want):
        got, want = np.asarray(got, dtype=np.float64), np.asarray(want, dtype=np.float64)
        ctx.check(CL_ALIAS, tag + ": run with overwritten caller arrays vs untouched control run", got, want, 1e-12 * (np.abs(want) + (float(np.max(np.abs(want))) if want.size else 0.0)))

    def compare(tag, st, ctrl, t, Yt, incremental):
        r = dense_for(t, Yt)
        tX = Xs.copy()
        mi, vi = st.predict(tX)
        _scribble(tX)
        mi, vi = np.array(mi, copy=True), np.array(vi, copy=True)
        mc, vc = ctrl.predict(Xs.copy())
        same(tag + " mean", mi, mc)
        same(tag + " variance", vi, vc)
        same(tag + " Cholesky factor", st.chol_fact, ctrl.chol_fact)
        same(tag + " prediction matrix", st.pred_mat, ctrl.pred_mat)
        ctx.check(
            CL_ALIAS,
            tag + " stored features / noise variance vs original values",
            np.concatenate([np.asarray(st.features).reshape(-1), np.asarray(st.noise_variance).reshape(-1)]),
            np.concatenate([X[:t].reshape(-1), s2ref]),
            0.0,
        )
        pre = "caller overwrites its arrays: " + tag
        if incremental:
            ctx.check(CLI, pre + " mean vs dense of the original values", mi, r.means, r.tol_mean)
            ctx.check(CLI, pre + " variance vs dense of the original values", vi, r.var, r.tol_var)
            sc = ps.GaussProcPosteriorState(features=X[:t].copy(), targets=Yt.copy(), mean=mean_fn, kernel=ref_kernel(), noise_variance=s2ref.copy())
            ms, vs = sc.predict(Xs.copy())
            ctx.check(CLI, pre + " mean vs library recompute", mi, np.asarray(ms), r.tol_mean)
            ctx.check(CLI, pre + " variance vs library recompute", vi, np.asarray(vs), r.tol_var)
            if Yt.shape[1] == 1:
                ctx.check(CLI, pre + " NLML vs dense of the original values", _f(st.neg_log_likelihood()), r.nlml, r.tol_nlml)
        else:
            ctx.check("predictive-mean-equals-dense", pre, mi, r.means, r.tol_mean)
            ctx.check("predictive-variance-equals-dense", pre, vi, r.var, r.tol_var)
            if Yt.shape[1] == 1:
                ctx.check("nlml-equals-dense", pre, _f(st.neg_log_likelihood()), r.nlml, r.tol_nlml)
        return r

    def new_state(cls, t, Yt):
        tuple_form = not (osc == 1.0 and rs.uniform() < 0.5)
        fX, fY, nb = X[:t].copy(), Yt.copy(), np.array([s2])
        cbuf = np.array([osc]) if tuple_form else None
        st = cls(features=fX, targets=fY, mean=mean_fn, kernel=(plain, cbuf) if tuple_form else plain, noise_variance=nb)
        _scribble(fX, fY, nb, cbuf)
        ctrl = cls(features=X[:t].copy(), targets=Yt.copy(), mean=mean_fn, kernel=(plain, np.array([osc])) if tuple_form else plain, noise_variance=np.array([s2]))
        return st, ctrl, (fX, fY, nb, cbuf)

    # A: plain posterior state: constructor arguments overwritten, then every query
    st, ctrl, bufs = new_state(ps.GaussProcPosteriorState, n, Y)
    compare("GaussProcPosteriorState(...); overwrite;", st, ctrl, n, Y, False)
    n_test = Xs.shape[0]
    z = rs.normal(size=(n_test, m, 1))
    tX = Xs.copy()
    stub = StubRandomState([z])
    zbuf = stub.queue[0]
    smp = np.array(st.sample_marginals(tX, num_samples=1, random_state=stub), copy=True)
    _scribble(tX, zbuf)
    same("GaussProcPosteriorState(...); overwrite; sample_marginals", smp, ctrl.sample_marginals(Xs.copy(), num_samples=1, random_state=StubRandomState([z])))

    # B: incremental state: update() with rows which are overwritten after each call; the noise / scale buffers are
    # overwritten again (with yet other values) between the updates
    st, ctrl, bufs = new_state(ps.IncrementalUpdateGPPosteriorState, n0, Y[:n0])
    compare("Incremental(...); overwrite;", st, ctrl, n0, Y[:n0], True)
    for t in range(n0, n):
        xb, yb = X[t : t + 1].copy(), Y[t : t + 1].copy()
        if rs.uniform() < 0.5:
            xb = xb.reshape(-1)  # update() reshapes: views of the caller's row
        st_old, ctrl_old = st, ctrl
        st = st.update(xb, yb)
        ctrl = ctrl.update(X[t : t + 1].copy(), Y[t : t + 1].copy())
        _scribble(xb, yb, *bufs)
        compare("update#%d; overwrite;" % (t - n0 + 1), st, ctrl, t + 1, Y[: t + 1], True)
        if t == n0:
            compare("old state after update#1 + overwrite", st_old, ctrl_old, t, Y[:t], True)

    # C: expand_fantasies, then fantasy rows
    if m > 1:
        st, ctrl, bufs = new_state(ps.IncrementalUpdateGPPosteriorState, n0, Y[:n0, :1])
        st, ctrl = st.expand_fantasies(m), ctrl.expand_fantasies(m)
        _scribble(*bufs)
        Yb = np.tile(Y[:n0, :1], (1, m))
        for t in range(n0, n):
            xb, yb = X[t : t + 1].copy(), Y[t : t + 1].copy()
            st = st.update(xb, yb)
            ctrl = ctrl.update(X[t : t + 1].copy(), Y[t : t + 1].copy())
            _scribble(xb, yb, *bufs)
            Yb = np.concatenate([Yb, Y[t : t + 1]], axis=0)
        compare("expand_fantasies + %d fantasy rows; overwrite;" % (n - n0), st, ctrl, n, Yb, True)

    # D: sample_and_update: feature, mask, the normal draws and the RETURNED target are overwritten
    st, ctrl, bufs = new_state(ps.IncrementalUpdateGPPosteriorState, n0, Y[:n0])
    Yc = Y[:n0].copy()
    for t in range(n0, n):
        z = rs.uniform(0.5, 2.0, size=(1, m)) * rs.choice([-1.0, 1.0], size=(1, m))
        mask = (rs.uniform(size=m) < 0.5) if (m > 1 and rs.uniform() < 0.6) else None
        stub = StubRandomState([z])
        zbuf = stub.queue[0]
        xb = X[t : t + 1].copy()
        mb = None if mask is None else mask.copy()
        target, st = st.sample_and_update(xb, mean_impute_mask=mb, random_state=stub)
        kept = np.array(target, copy=True)
        target_c, ctrl = ctrl.sample_and_update(X[t : t + 1].copy(), mean_impute_mask=None if mask is None else mask.copy(), random_state=StubRandomState([z]))
        _scribble(xb, mb, zbuf, *bufs)
        if isinstance(target, np.ndarray) and target.flags.writeable:
            _scribble(target)
        same("sample_and_update#%d target" % (t - n0 + 1), kept, target_c)
        if kept.shape != (1, m):
            break
        Yc = np.concatenate([Yc, kept], axis=0)
        compare("sample_and_update#%d; overwrite (incl. returned target);" % (t - n0 + 1), st, ctrl, t + 1, Yc, True)

    # E: low-level entry points return fresh arrays
    fX, fY, nb, cbuf = X[:n0].copy(), Y[:n0].copy(), np.array([s2]), np.array([osc])
    L0, P0 = pu.cholesky_computations(fX, fY, mean_fn, (plain, cbuf), nb)
    _scribble(fX, fY, nb, cbuf)
    Lc, Pc = pu.cholesky_computations(X[:n0].copy(), Y[:n0].copy(), mean_fn, (plain, np.array([osc])), np.array([s2]))
    same("cholesky_computations; overwrite; Cholesky factor", L0, Lc)
    same("cholesky_computations; overwrite; prediction matrix", P0, Pc)
    xb, yb, nb2 = X[n0 : n0 + 1].copy(), Y[n0 : n0 + 1].copy(), np.array([s2])
    L1, P1 = pu.cholesky_update(X[:n0].copy(), mean_fn, ref_kernel(), L0, P0, nb2, xb, yb)
    _scribble(xb, yb, nb2)
    L1c, P1c = pu.cholesky_update(X[:n0].copy(), mean_fn, ref_kernel(), Lc, Pc, np.array([s2]), X[n0 : n0 + 1].copy(), Y[n0 : n0 + 1].copy())
    same("cholesky_update; overwrite; Cholesky factor", L1, L1c)
    same("cholesky_update; overwrite; prediction matrix", P1, P1c)


# --------------------------------------------------------------------------------------------------------------
# entry point
# --------------------------------------------------------------------------------------------------------------
KINDS = [
    ("matern-iso", 1),
    ("matern-ard", 1),
    ("matern-noscale", 1),
    ("matern-tuple", 1),
    ("warped-matern", 1),
    ("product", 2),
    ("expdecay", 2),
    ("own-rbf", 1),
    ("own-table", 1),
    ("warped-expdecay", 2),
    ("warped-product-expdecay", 3),
    ("warped-range-expdecay", 3),
]


def monitor_posterior(tier="quick", seed=0):
    prev_disable = logging.root.manager.disable
    logging.disable(logging.CRITICAL)
    try:
        with warnings.catch_warnings():
            warnings.simplefilter("ignore")
            with np.errstate(all="ignore"):
                return _monitor(tier, int(seed))
    finally:
        logging.disable(prev_disable)


def _monitor(tier, seed):
    E = _env()
    assert E.const.MIN_POSTERIOR_VARIANCE == FLOOR, "MIN_POSTERIOR_VARIANCE changed: %r" % E.const.MIN_POSTERIOR_VARIANCE
    per_kind = 24 if tier == "quick" else 200
    ctx = Ctx(seed)
    ctx.nondiag_joint = 0
    ctx.xdiag_effective = 0
    samples = []
    data_modes = ["random", "near-duplicates", "duplicates", "mixed", "corners"]
    param_modes = ["benign", "box", "benign", "edge", "box"]
    n_cases = 0
    for ki, (kind, dmin) in enumerate(KINDS):
        for i in range(per_kind):
            rs = np.random.RandomState([seed, ki, i, 8008])
            # shapes: the first cases of every kind are fixed so that every clause is exercised for every kind
            if i == 0:
                n, n_test, m = 6, 3, 3
            elif i == 1:
                n, n_test, m = 8, 4, 1
            elif i == 2:
                n, n_test, m = 1, 2, 1
            else:
                n, n_test, m = int(rs.randint(1, 9)), int(rs.randint(1, 5)), int([1, 3][rs.randint(2)])
            d = 1 if kind == "own-table" else int(rs.randint(dmin, 5 if kind in XDIAG_KINDS else 4))
            data_mode = data_modes[(i + ki) % len(data_modes)]
            mode = param_modes[(i + 2 * ki) % len(param_modes)]
            if kind == "expdecay":
                mean_kind = ["expdecay", "scalar", "expdecay", "zero"][i % 4]
            else:
                mean_kind = ["scalar", "zero", "own-linear", "scalar"][(i + ki) % 4]
            do_gpr = (i % 2 == 0)
            case_id = "%s#%d" % (kind, i)
            n_cases += 1
            try:
                ref = run_case(E, ctx, rs, case_id, kind, n, d, n_test, m, data_mode, mode, mean_kind, do_gpr)
                if len(samples) < 4 and i == 0 and kind in ("matern-ard", "matern-tuple", "warped-matern", "own-table"):
                    samples.append({k: ctx.case[k] for k in ("id", "kind", "n", "d", "n_test", "m", "mean", "noise_variance", "cond", "data_mode")})
                    samples[-1]["params"] = {k: v for k, v in ctx.case["params"].items() if not isinstance(v, list) or len(v) <= 3}
                    samples[-1]["example_mean"] = float(ref.means[0, 0])
                    samples[-1]["example_variance"] = float(ref.var[0])
                    samples[-1]["mean_tolerance"] = float(ref.tol_mean[0, 0])
            except Exception as exc:  # a crash of the code under test on an admissible input is a violation
                if ctx.case is None or ctx.case.get("id") != case_id:
                    ctx.case = {"id": case_id, "kind": kind, "n": n, "d": d, "n_test": n_test, "m": m, "data_mode": data_mode}
                ctx.exception(exc)
    missing = [cname for cname, cnt in ctx.counts.items() if cnt == 0]
    if missing:
        raise RuntimeError("clauses never exercised: %s" % missing)
    if ctx.nondiag_joint == 0:
        raise RuntimeError("no joint-sample case with a non-diagonal posterior covariance")
    if ctx.xdiag_effective < 3 and not ctx.n_violations:
        raise RuntimeError("fewer than 3 warped kernels with a non-identity warping on a coordinate the inner diagonal depends on")
    worst = {k: round(v[0], 4) for k, v in sorted(ctx.worst.items())}
    samples = samples[:3]
    samples.append({"worst_deviation_over_tolerance_per_clause": worst, "comparisons_per_clause": dict(ctx.counts)})
    return {
        "evaluations": ctx.evaluations,
        "distinct": len(ctx.distinct),
        "clauses": list(CLAUSES),
        "violations": ctx.violations,
        "samples": samples,
        "summary": (
            "%d cases (seed %d, tier %s): kernels %s; n 1..8, d 1..3 (1..4 for warped composites), n_test 1..4, m in {1,3}, <=3 successive updates; "
            "inputs in the unit cube incl. exact/near duplicates and corners; parameters benign / log-uniform over / at the "
            "bounds of their boxes; noise raised until eps*cond<=1e-3 (eps 1e-8 library kernels, 1e-13 own kernels); "
            "%d joint-sample cases with non-diagonal covariance; %d warped kernels whose inner diagonal depends on a "
            "coordinate warped with parameters != 1; %d failed comparisons%s"
            % (
                n_cases,
                seed,
                tier,
                ",".join(k for k, _ in KINDS),
                ctx.nondiag_joint,
                ctx.xdiag_effective,
                ctx.n_violations,
                (" " + str(dict(sorted(ctx.by_clause.items()))) + " (at most 2 stored per clause and kernel kind)") if ctx.n_violations else "",
            )
        ),
    }
