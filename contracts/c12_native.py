"""C12 (native monitor) -- tuning terminates on the stopping criterion and leaves nothing running.

``monitor_termination(tier, seed)`` drives the REAL ``Tuner.run`` / ``StoppingCriterion`` / ``TuningStatus`` /
``TrialBackend.stop_all`` / ``SimulatorCallback`` through a bounded catalogue of runs and compares, after every loop
iteration and after ``run()`` returned or raised, with a reference that is kept here from an event log (what the back
end handed to the loop, what the scheduler decided and suggested, which back-end calls were made, the back end's own
trial states).  Nothing of the reference is read from the objects under test.

Back ends
  * tick back end: a deterministic in-memory ``TrialBackend``; the world advances by one tick per poll, every trial
    occupies a scripted worker until it completes, fails, is stopped or paused; workers report ``loss``, ``acc``,
    ``epoch``, ``st_worker_time`` and (optionally) ``st_worker_cost`` (all dyadic numbers, so sums are exact); the clock
    read by ``TuningStatus`` is driven by the back end (``dt`` per poll), so the wall-clock part is deterministic.
  * simulator: ``UserBlackboxBackend`` + ``SimulatorCallback`` on a hand-made ``BlackboxTabular`` (full grid over two
    hyper-parameter columns, objectives loss / st_worker_cost / elapsed); real time is frozen, so simulated time only
    moves by the tuner's sleep; the clock of ``TuningStatus`` jumps by 1000 s per poll (the wall-clock part has to be
    judged on simulated time, as documented for ``SimulatorCallback``).
  * simulator with a scripted worker: the library's ``SimulatorBackend`` itself, only the hook "run the job and collect
    what it reported" is scripted (as the blackbox back ends do): jobs end Completed or Failed, also BEFORE their first
    report.  Here the reference state of a polled trial is the worker's outcome once the simulated time of the job's
    completion has passed (worker truth), not what the back end hands over; status, failure-limit and exit clauses are
    judged against it.
Schedulers: a scripted one (plan of new / resumed / no suggestion, STOP / PAUSE per (trial, epoch), exceptions at the
k-th result / suggestion), FIFO (random, finite space), Hyperband stopping / promotion, median rule, PBT.

What the statement leaves open is left open here: a trial that completed and was PAUSEd by the scheduler in the same
iteration may be counted as completed or as paused (verdicts that depend on it are three-valued and skipped); the
wall-clock threshold is never placed on a reachable clock value ("reached" vs "exceeded"); count / cost / metric
thresholds are strict as documented for ``StoppingCriterion`` ("more than", "larger than", "below", "above"); on the
simulator only trials that have reported can be seen by stop_all (documented), so 'left running' is judged on those.

One clause is refuted on the pinned tree (a recorded known finding, under a clause name of its own so that every other
clause keeps being checked):
  * exit/final-status-...[exception-while-processing-results]: when ``run()`` is left by an exception raised while the
    results of an iteration are processed (scheduler / callback error, "trial completed and no metrics got observed"),
    the states fetched in that iteration are never registered; a trial that completed is shown as 'Stopped' by
    ``mark_running_job_as_stopped`` and ``num_trials_completed`` is one short.
(simulator/wallclock-combined-with-metric-thresholds-keeps-the-thresholds was refuted until the fix "simulator keeps the
user's metric thresholds of the stopping criterion"; it is an ordinary clause now.)

Bounded stand-in, never counted as proved.
"""
import contextlib
import io
import json
import logging
import math
import os
import shutil
import sys
import tempfile
import warnings
from collections import Counter
from datetime import datetime

import numpy as np

sys.modules.setdefault("yahpo_gym", None)

IP, CO, FA, SP, SG, PA = "InProgress", "Completed", "Failed", "Stopped", "Stopping", "Paused"
FINISHED = {CO, SP, SG, FA}
CONTINUE, STOP, PAUSE = "CONTINUE", "STOP", "PAUSE"
FIELDS = [
    "max_wallclock_time",
    "max_num_evaluations",
    "max_num_trials_started",
    "max_num_trials_completed",
    "max_num_trials_finished",
    "max_cost",
    "max_metric_value",
    "min_metric_value",
]

# ---- status after every loop iteration (the object the criterion is evaluated on) -------------------------------
C_ST_STATE = "status-after-every-iteration/every-started-trial-is-listed-with-the-state-it-is-in[stopped-or-paused-by-the-scheduler-in-this-iteration-counts-in-this-iteration]"
C_ST_COUNT = "status-after-every-iteration/counters-started-completed-failed-finished-running-equal-numbers-of-trials-in-each-state"
C_ST_BACKEND = "status-after-every-iteration/per-trial-state-equals-the-back-end's-own-trial-state[in-memory-back-end]"
C_ST_ROWS = "status-after-every-iteration/status-column-of-trial-rows-equals-per-trial-state"
C_ST_EVALS = "status-after-every-iteration/number-of-evaluations-equals-number-of-results-handed-to-the-loop"
C_ST_COST = "status-after-every-iteration/cost-equals-sum-over-trials-of-largest-st_worker_cost-reported"
C_ST_UTIME = "status-after-every-iteration/user-time-equals-sum-over-trials-of-largest-st_worker_time-reported"
C_ST_WALL = "status-after-every-iteration/wallclock-time-equals-clock-time-elapsed-since-run-start"
C_ST_MINMAX = "status-after-every-iteration/overall-min-and-max-of-each-metric-equal-min-and-max-of-values-handed"
# ---- StoppingCriterion verdicts on the real status ---------------------------------------------------------------
C_CR = {f: "criterion/%s-alone-holds-iff-its-documented-condition-holds-on-what-happened" % f for f in FIELDS}
C_CR_OR = "criterion/combination-of-fields-holds-iff-at-least-one-part-holds"
# ---- the run -------------------------------------------------------------------------------------------------------
C_END_FIRST = "run/ends-at-end-of-first-iteration-after-which-criterion-or-failure-limit-holds"
C_NOT_EARLY = "run/does-not-end-before-criterion-failure-limit-or-exhaustion-with-nothing-running-holds"
C_NO_START_AFTER = "run/no-trial-started-or-resumed-once-criterion-or-failure-limit-holds"
C_OVERSHOOT = "run/count-budget-overshot-by-at-most-n_workers[evaluations:by-one-iteration's-results]"
C_WAIT = "run/wait_trial_completion_when_stopping:ends-at-first-iteration-after-which-no-trial-runs-and-stop_all-terminates-nothing"
C_EXHAUST = "run/search-space-exhausted:ends-at-first-iteration-after-which-no-trial-runs-and-stop_all-terminates-nothing"
C_NWORKERS = "run/at-most-n_workers-trials-running-at-any-time"
C_FAIL_RAISE = "run/raises-iff-more-than-max_failures-trials-failed"
C_TERMINATES = "run/terminates-within-the-poll-bound"
# ---- when run() returns or raises ---------------------------------------------------------------------------------
C_END_CB = "exit/on_tuning_end-called-exactly-once-on-every-exit-path[normal|failure-limit|exception]"
C_STOP_ALL = "exit/stop_all-called-on-every-exit-path"
C_NO_RUNNING = "exit/no-trial-left-running-in-the-back-end[normal|failure-limit|exception]"
C_ST_NO_RUNNING = "exit/status-shows-no-trial-in-progress"
C_FINAL = "exit/final-status-states-and-counters-equal-final-trial-states[normal|failure-limit|exception-while-suggesting]"
C_FINAL_MIDITER = "exit/final-status-states-and-counters-equal-final-trial-states[exception-while-processing-results]"
C_STORED = "exit/final-results-stored-one-row-per-result-delivered-to-the-scheduler[normal|failure-limit|exception]"
# ---- simulator -------------------------------------------------------------------------------------------------------
C_SIM_END = "simulator/run-ends-at-end-of-first-iteration-after-which-criterion-holds[wallclock-part-judged-on-simulated-time,other-parts-kept]"
C_SIM_THRESH = "simulator/wallclock-combined-with-metric-thresholds-keeps-the-thresholds"
C_SIM_NO_RUNNING = "simulator/no-trial-that-has-reported-is-left-in-progress"

CLAUSES = (
    [C_ST_STATE, C_ST_COUNT, C_ST_BACKEND, C_ST_ROWS, C_ST_EVALS, C_ST_COST, C_ST_UTIME, C_ST_WALL, C_ST_MINMAX]
    + [C_CR[f] for f in FIELDS]
    + [C_CR_OR, C_END_FIRST, C_NOT_EARLY, C_NO_START_AFTER, C_OVERSHOOT, C_WAIT, C_EXHAUST, C_NWORKERS, C_FAIL_RAISE, C_TERMINATES]
    + [C_END_CB, C_STOP_ALL, C_NO_RUNNING, C_ST_NO_RUNNING, C_FINAL, C_FINAL_MIDITER, C_STORED]
    + [C_SIM_END, C_SIM_THRESH, C_SIM_NO_RUNNING]
)

MAX_VIOLATIONS_PER_CLAUSE = 5
MAX_POLLS_TICK = 150
MAX_POLLS_SIM = 1500
_ENV = None


# --------------------------------------------------------------------------------------------------------------
# bookkeeping
# --------------------------------------------------------------------------------------------------------------
def _js(x, depth=0):
    if isinstance(x, dict):
        return {str(k): _js(v, depth + 1) for k, v in list(x.items())[:40]}
    if isinstance(x, (list, tuple, set, frozenset)):
        return [_js(v, depth + 1) for v in list(x)[:40]]
    if isinstance(x, (bool, str)) or x is None:
        return x
    if isinstance(x, (int, np.integer)):
        return int(x)
    if isinstance(x, (float, np.floating)):
        x = float(x)
        return x if math.isfinite(x) else repr(x)
    return repr(x)[:160]


class _Book:
    def __init__(self):
        self.n = 0
        self.per = Counter()
        self.viol = []
        self.nviol = Counter()
        self.scenarios = set()
        self.samples = []
        self.families = Counter()

    def check(self, clause, ok, **details):
        assert clause in CLAUSES, clause
        self.n += 1
        self.per[clause] += 1
        if not ok:
            self.nviol[clause] += 1
            if self.nviol[clause] <= MAX_VIOLATIONS_PER_CLAUSE:
                d = {"clause": clause}
                d.update(_js(details))
                self.viol.append(d)
        return bool(ok)


class _Stuck(Exception):
    pass


class _Injected(RuntimeError):
    pass


class _InjectedInterrupt(KeyboardInterrupt):
    pass


@contextlib.contextmanager
def _quiet():
    with warnings.catch_warnings():
        warnings.simplefilter("ignore")
        with contextlib.redirect_stdout(io.StringIO()):
            yield


def _tri_or(vals):
    vals = list(vals)
    if any(v is True for v in vals):
        return True
    if any(v is None for v in vals):
        return None
    return False


def _gt(rng, k):
    """three-valued ``count > k`` for a count known up to the range ``rng = (lo, hi)``"""
    lo, hi = rng
    return True if lo > k else (False if hi <= k else None)


# --------------------------------------------------------------------------------------------------------------
# worker behaviour (what a trial reports): all values dyadic
# --------------------------------------------------------------------------------------------------------------
def _loss(config, e):
    return 4.0 - 0.5 * e - 0.125 * (int(config["x"]) % 4)


def _acc(config, e):
    return 0.125 * e + 0.0625 * (int(config["x"]) % 4)


def _beh(L=3, bursts=(1,), kind="complete", lag=0):
    return {"L": L, "bursts": list(bursts), "kind": kind, "lag": lag}


# --------------------------------------------------------------------------------------------------------------
# library access (lazy)
# --------------------------------------------------------------------------------------------------------------
def _env():
    global _ENV
    if _ENV is not None:
        return _ENV
    from pathlib import Path
    from types import SimpleNamespace

    with _quiet():  # the library prints notices about optional dependencies when imported
        import pandas as pd

        from syne_tune import Tuner, StoppingCriterion
        from syne_tune import tuning_status as ts_mod
        from syne_tune.backend.simulator_backend import time_keeper as tk_mod
        from syne_tune.backend.simulator_backend.simulator_backend import SimulatorBackend, SimulatorConfig
        from syne_tune.backend.simulator_backend.simulator_callback import SimulatorCallback
        from syne_tune.backend.trial_backend import TrialBackend
        from syne_tune.backend.trial_status import Status, TrialResult
        from syne_tune.blackbox_repository.blackbox_tabular import BlackboxTabular
        from syne_tune.blackbox_repository.simulated_tabular_backend import UserBlackboxBackend
        from syne_tune.config_space import randint
        from syne_tune.constants import ST_RESULTS_DATAFRAME_FILENAME, ST_TUNER_TIME, ST_WORKER_COST, ST_WORKER_TIME, ST_WORKER_TIMESTAMP
        from syne_tune.optimizer.scheduler import SchedulerDecision, TrialScheduler, TrialSuggestion
        from syne_tune.optimizer.schedulers.fifo import FIFOScheduler
        from syne_tune.optimizer.schedulers.hyperband import HyperbandScheduler
        from syne_tune.optimizer.schedulers.median_stopping_rule import MedianStoppingRule
        from syne_tune.optimizer.schedulers.pbt import PopulationBasedTraining
        from syne_tune.results_callback import StoreResultsCallback
        from syne_tune.tuner_callback import TunerCallback

    assert (Status.in_progress, Status.completed, Status.failed, Status.stopped, Status.stopping, Status.paused) == (IP, CO, FA, SP, SG, PA)
    assert (SchedulerDecision.CONTINUE, SchedulerDecision.STOP, SchedulerDecision.PAUSE) == (CONTINUE, STOP, PAUSE)
    assert (ST_WORKER_COST, ST_WORKER_TIME, ST_TUNER_TIME) == ("st_worker_cost", "st_worker_time", "st_tuner_time")

    class Clock:
        """stands in for the ``time`` module inside tuning_status.py (perf_counter) and time_keeper.py (time)"""

        def __init__(self):
            self.now = 5000.0
            self.frozen = 1000.0

        def perf_counter(self):
            return self.now

        def time(self):
            return self.frozen

    class TickBackend(TrialBackend):
        """in-memory back end: one tick per poll; the scenario monitor ``mon`` is told about every call"""

        def __init__(self, mon):
            super().__init__()
            self.mon = mon
            self.st = {}
            self.tick = 0

        # -- scripted workers
        def _advance(self):
            self.tick += 1
            for tid in sorted(self.st):
                s = self.st[tid]
                if s["status"] != IP:
                    continue
                b = self.mon.behaviour(tid)
                cap = s["config"].get("epochs")
                limit = b["L"] if cap is None else min(b["L"], int(cap))
                if s["endwait"] is not None:
                    s["endwait"] -= 1
                    if s["endwait"] <= 0:
                        self._finish(s, b, limit)
                    continue
                n = b["bursts"][s["age"] % len(b["bursts"])]
                s["age"] += 1
                for _ in range(max(0, min(n, limit - s["pos"]))):
                    s["pos"] += 1
                    e = s["pos"]
                    r = {"epoch": e, "loss": _loss(s["config"], e), "acc": _acc(s["config"], e), ST_WORKER_TIMESTAMP: float(self.tick * 100000 + tid * 100 + e), ST_WORKER_TIME: 0.5 * e}
                    if self.mon.spec.get("with_cost"):
                        r[ST_WORKER_COST] = 0.25 * (1 + tid % 2) * e
                    s["metrics"].append(r)
                if s["pos"] >= limit:
                    if b["lag"] <= 0:
                        self._finish(s, b, limit)
                    else:
                        s["endwait"] = b["lag"]

        @staticmethod
        def _finish(s, b, limit):
            s["status"] = FA if (b["kind"] == "fail" and s["pos"] >= b["L"]) else CO
            s["endwait"] = None

        # -- observed public calls
        def fetch_status_results(self, trial_ids):
            self.mon.poll()
            self._advance()
            self.mon.clock.now += self.mon.spec.get("dt", 1.0)
            out = super().fetch_status_results(trial_ids)
            self.mon.ev_fetch(list(trial_ids), out)
            return out

        def start_trial(self, config, checkpoint_trial_id=None):
            trial = super().start_trial(config, checkpoint_trial_id)
            self.mon.ev_start(trial.trial_id, "start")
            return trial

        def resume_trial(self, trial_id, new_config=None):
            trial = super().resume_trial(trial_id, new_config)
            self.mon.ev_start(trial_id, "resume")
            return trial

        def stop_all(self):
            self.mon.ev_stop_all(sorted(t for t, s in self.st.items() if s["status"] == IP))
            super().stop_all()

        # -- TrialBackend interface
        def _schedule(self, trial_id, config):
            s = self.st.get(trial_id)
            if s is None:
                self.st[trial_id] = {"config": config, "created": datetime.now(), "metrics": [], "pos": 0, "age": 0, "endwait": None, "status": IP}
            else:
                s["config"] = config
                s["status"] = IP
                s["endwait"] = None

        def _all_trial_results(self, trial_ids):
            return [TrialResult(trial_id=t, config=self.st[t]["config"], creation_time=self.st[t]["created"], metrics=[dict(m) for m in self.st[t]["metrics"]], status=self.st[t]["status"]) for t in trial_ids]

        def _stop_trial(self, trial_id, result):
            if self.st[trial_id]["status"] == IP:
                self.st[trial_id]["status"] = SP

        def _pause_trial(self, trial_id, result):
            if self.st[trial_id]["status"] == IP:
                self.st[trial_id]["status"] = PA

        def _resume_trial(self, trial_id):
            pass

        def busy_trial_ids(self):
            return [(t, s["status"]) for t, s in self.st.items() if s["status"] in (IP, SG)]

        def copy_checkpoint(self, src_trial_id, tgt_trial_id):
            pass

        def delete_checkpoint(self, trial_id):
            pass

        def stdout(self, trial_id):
            return []

        def stderr(self, trial_id):
            return []

        def entrypoint_path(self):
            return Path("c12_native_tick.py")

        def set_entrypoint(self, entry_point):
            pass

        def own_states(self):
            return {t: s["status"] for t, s in self.st.items()}

    class ObserveSimMixin:
        mon = None

        def fetch_status_results(self, trial_ids):
            self.mon.poll()
            self.mon.clock.now += 1000.0
            out = super().fetch_status_results(trial_ids)
            self.mon.sim_now = self.time_keeper.time()
            self.mon.ev_fetch(list(trial_ids), out)
            return out

        def start_trial(self, config, checkpoint_trial_id=None):
            trial = super().start_trial(config, checkpoint_trial_id)
            self.mon.ev_start(trial.trial_id, "start")
            return trial

        def resume_trial(self, trial_id, new_config=None):
            trial = super().resume_trial(trial_id, new_config)
            self.mon.ev_start(trial_id, "resume")
            return trial

        def stop_all(self):
            self.mon.ev_stop_all(sorted(t for t, tr in self._trial_dict.items() if isinstance(tr, TrialResult) and tr.status == IP))
            super().stop_all()

        def own_states(self):
            """only trials that have reported (the others are invisible to stop_all, as documented)"""
            return {t: tr.status for t, tr in self._trial_dict.items() if isinstance(tr, TrialResult)}

    class ObservedSim(ObserveSimMixin, UserBlackboxBackend):
        pass

    class ScriptedWorkerSim(ObserveSimMixin, SimulatorBackend):
        """the library's ``SimulatorBackend`` with a scripted worker (the hook the blackbox back ends override): a job reports
        the epochs the trial has not reported yet, ``epoch_time`` apart, and ends Completed or Failed -- also before its first
        report.  The monitor is told the outcome and the simulated time at which each job ends (worker truth)."""

        def __init__(self, mon, epoch_time, **kwargs):
            super().__init__(entry_point=str(Path(__file__)), elapsed_time_attr="elapsed", **kwargs)  # entry point: dummy, never executed
            self.mon = mon
            self.epoch_time = epoch_time
            self._job = {}

        def _run_job_and_collect_results(self, trial_id, config=None):
            if config is None:
                config = self._trial_dict[trial_id].config
            b = self.mon.behaviour(trial_id)
            pos = self._last_metric_seen_index[trial_id]
            results = []
            for e in range(pos + 1, b["L"] + 1):
                r = {"epoch": e, "loss": _loss(config, e), "acc": _acc(config, e), "elapsed": self.epoch_time * (e - pos)}
                if self.mon.spec.get("with_cost"):
                    r[ST_WORKER_COST] = 0.25 * (1 + trial_id % 2) * e
                results.append(r)
            status = FA if b["kind"] == "fail" else CO
            self._job[trial_id] = (status, [r["elapsed"] for r in results])
            return status, results

        def _process_start_event(self, trial_id, time_event, config=None):
            super()._process_start_event(trial_id, time_event, config)
            status, elapsed = self._job[trial_id]
            end = max([time_event] + [time_event + float(x) for x in elapsed]) + self.simulator_config.delay_complete_after_final_report
            self.mon.ev_job(trial_id, end, status)

        def stdout(self, trial_id):
            return []

        def stderr(self, trial_id):
            return []

    class ScriptedScheduler(TrialScheduler):
        def __init__(self, sspec):
            super().__init__({"x": randint(0, 1000), "y": randint(0, 1000)})
            self.s = sspec
            self.decisions = {int(t): {int(e): d for e, d in v.items()} for t, v in sspec.get("decisions", {}).items()}
            self.rule = sspec.get("rule")
            self.paused = []
            self.resumed = Counter()
            self.n_new = 0
            self.n_suggest = 0
            self.n_result = 0

        def _suggest(self, trial_id):
            self.n_suggest += 1
            if self.s.get("raise_at_suggest") == self.n_suggest:
                raise (_InjectedInterrupt if self.s.get("raise_kind") == "interrupt" else _Injected)("scripted at suggestion %d" % self.n_suggest)
            mode = self.s.get("resume", "never")
            if self.paused and (mode == "fifo" or (mode == "lazy" and self.n_suggest % 2 == 0)):
                tid = self.paused.pop(0)
                self.resumed[tid] += 1
                return TrialSuggestion.resume_suggestion(tid)
            limit = self.s.get("n_new")
            if limit is not None and self.n_new >= limit:
                return None
            self.n_new += 1
            return TrialSuggestion.start_suggestion({"x": int(trial_id), "y": int(3 * trial_id + 1) % 7})

        def _decide(self, tid, e):
            d = self.decisions.get(tid, {}).get(e)
            if d is None and self.rule is not None:
                for mod, rem, ep, dec, once in self.rule:
                    if tid % mod == rem and e == ep and not (once and self.resumed[tid] > 0):
                        return dec
            return d or CONTINUE

        def on_trial_result(self, trial, result):
            self.n_result += 1
            if self.s.get("raise_at_result") == self.n_result:
                raise (_InjectedInterrupt if self.s.get("raise_kind") == "interrupt" else _Injected)("scripted at result %d" % self.n_result)
            d = self._decide(trial.trial_id, int(result["epoch"]))
            if d == PAUSE:
                self.paused.append(trial.trial_id)
            return d

        def metric_names(self):
            return ["loss"]

        def metric_mode(self):
            return "min"

    class Recorder(TunerCallback):
        def __init__(self, mon):
            self.mon = mon
            self.tuner = None

        def on_tuning_start(self, tuner):
            self.tuner = tuner
            self.mon.ev_tuning_start(tuner)

        def on_loop_start(self):
            self.mon.ev_loop_start()

        def on_loop_end(self):
            self.mon.ev_loop_end(self.tuner)

        def on_tuning_sleep(self, sleep_time):
            self.mon.mark_processed()

        def on_tuning_end(self):
            self.mon.ev_tuning_end(self.tuner)

    _ENV = SimpleNamespace(**{k: v for k, v in locals().items() if not k.startswith("_")})
    return _ENV


# --------------------------------------------------------------------------------------------------------------
# reference criterion (documented meaning of every field, on the reference values)
# --------------------------------------------------------------------------------------------------------------
def _ref_parts(crit, v, sim=False):
    parts = {}
    for f, k in crit.items():
        if k is None:
            continue
        if f == "max_wallclock_time":
            parts[f] = (v["sim_time"] > k) if sim else (v["wallclock"] > k)
        elif f == "max_num_evaluations":
            parts[f] = v["evals"] > k
        elif f == "max_num_trials_started":
            parts[f] = v["started"] > k
        elif f == "max_num_trials_completed":
            parts[f] = _gt(v["completed"], k)
        elif f == "max_num_trials_finished":
            parts[f] = _gt(v["finished"], k)
        elif f == "max_cost":
            parts[f] = v["cost"] > k
        elif f == "max_metric_value":
            parts[f] = any(m in v["mm"] and v["mm"][m][1] > t for m, t in k.items())
        elif f == "min_metric_value":
            parts[f] = any(m in v["mm"] and v["mm"][m][0] < t for m, t in k.items())
        else:
            raise KeyError(f)
    return parts


# --------------------------------------------------------------------------------------------------------------
# scenario monitor: event log + reference + checks
# --------------------------------------------------------------------------------------------------------------
class Mon:
    def __init__(self, E, book, spec, clock):
        self.E, self.book, self.spec, self.clock = E, book, spec, clock
        self.sim = spec["backend"] == "sim"
        self.n_workers = spec["n_workers"]
        self.wait = bool(spec.get("wait"))
        self.max_failures = spec.get("max_failures", 1)
        self.crit = dict(spec["criterion"])
        self.route = dict(spec.get("route", {}))
        self.probe = spec.get("probe", True)
        self.rs = np.random.RandomState(spec.get("probe_seed", 0))
        self.backend = None
        self.t0 = None
        self.state = {}
        self.alt = {}
        self.handed = []
        self.handed_in_iter = Counter()
        self.cost = {}
        self.wtime = {}
        self.mm = {}
        self.sim_time = -math.inf
        self.sim_now = None
        self.truth = spec.get("worker") == "scripted"
        self.jobs = {}
        self.delivered = 0
        self.iter = 0
        self.polls = 0
        self.held = {}
        self.proc = {}
        self.run_end = {}
        self.vals_end = {}
        self.exhausted_at = None
        self.first_held = None
        self.stop_all_calls = []
        self.end_cb = 0
        self.phase = None
        self.in_suggest = False
        self.in_result = False
        self.stuck = False

    # ---- helpers
    def check(self, clause, ok, **details):
        clause = self.route.get(clause, clause)
        if not ok:
            details = dict(details, scenario=self.spec["id"], spec=_describe(self.spec), iteration=self.iter)
        return self.book.check(clause, ok, **details)

    def behaviour(self, tid):
        b = self.spec["behaviours"]
        return b[tid % len(b)]

    def poll(self):
        self.polls += 1
        if self.polls > self.spec.get("max_polls", MAX_POLLS_SIM if self.sim else MAX_POLLS_TICK):
            self.stuck = True
            raise _Stuck("more than %d polls" % (self.polls - 1))

    def running(self):
        return frozenset(t for t, s in self.state.items() if s == IP)

    def mark_processed(self):
        if self.iter not in self.proc:
            self.proc[self.iter] = self.running()

    def admissible(self, tid):
        return {self.state[tid]} | self.alt.get(tid, set())

    def _rng(self, pred):
        lo = hi = 0
        for tid in self.state:
            hits = [pred(a) for a in self.admissible(tid)]
            lo += all(hits)
            hi += any(hits)
        return lo, hi

    def values(self):
        return {
            "started": len(self.state),
            "completed": self._rng(lambda a: a == CO),
            "failed": self._rng(lambda a: a == FA),
            "finished": self._rng(lambda a: a in FINISHED),
            "running": self._rng(lambda a: a == IP),
            "evals": len(self.handed),
            "cost": math.fsum(self.cost.values()),
            "user_time": math.fsum(self.wtime.values()),
            "wallclock": None if self.t0 is None else self.clock.now - self.t0,
            "sim_time": self.sim_time,
            "mm": {m: tuple(x) for m, x in self.mm.items()},
        }

    def ref_held(self, v):
        parts = _ref_parts(self.crit, v, sim=self.sim)
        return _tri_or(list(parts.values()) + [_gt(v["failed"], self.max_failures)]), parts

    # ---- events
    def ev_tuning_start(self, tuner):
        self.phase = "loop"

    def ev_loop_start(self):
        self.iter += 1

    def ev_fetch(self, trial_ids, out):
        status_dict, results = out
        for tid, (trial, status) in status_dict.items():
            job = self.jobs.get(tid) if self.truth else None
            if job is not None and job[0] <= self.sim_now - 1e-6:
                # scripted simulator worker: the job of this (polled, hence neither stopped nor paused) trial ended before
                # this poll; what happened is the worker's outcome, whatever the back end hands over
                status = job[1]
            self.state[tid] = status
            self.alt.pop(tid, None)
        for tid, r in results:
            self.handed.append((self.iter, tid, dict(r)))
            self.handed_in_iter[self.iter] += 1
            for m, val in r.items():
                if isinstance(val, (int, float, np.integer, np.floating)) and not isinstance(val, bool):
                    val = float(val)
                    lo, hi = self.mm.get(m, (math.inf, -math.inf))
                    self.mm[m] = (min(lo, val), max(hi, val))
            if "st_worker_cost" in r:
                self.cost[tid] = max(self.cost.get(tid, -math.inf), float(r["st_worker_cost"]))
            if "st_worker_time" in r:
                self.wtime[tid] = max(self.wtime.get(tid, -math.inf), float(r["st_worker_time"]))
            if "st_tuner_time" in r:
                self.sim_time = max(self.sim_time, float(r["st_tuner_time"]))

    def ev_job(self, tid, end, status):
        self.jobs[tid] = (end, status)

    def ev_decision(self, tid, decision):
        self.delivered += 1
        s = self.state.get(tid)
        if decision in (STOP, PAUSE):
            self.jobs.pop(tid, None)
        if decision == STOP:
            if s == IP:
                self.state[tid] = SP
        elif decision == PAUSE:
            if s == IP:
                self.state[tid] = PA
            elif s == CO:
                # open: the trial completed AND the scheduler paused it
                self.state[tid] = PA
                self.alt[tid] = {CO}

    def ev_suggest_begin(self):
        self.mark_processed()

    def ev_suggest(self, suggestion):
        if suggestion is None and self.exhausted_at is None:
            self.exhausted_at = self.iter

    def ev_start(self, tid, kind):
        self.mark_processed()
        self.state[tid] = IP
        self.alt.pop(tid, None)
        self.jobs.pop(tid, None)
        held_before = [i for i, h in self.held.items() if h is True and i < self.iter]
        self.check(C_NO_START_AFTER, not held_before, trial=tid, kind=kind, criterion_held_at_end_of_iteration=held_before[:1], criterion=self.crit)
        n_run = len(self.running())
        self.check(C_NWORKERS, n_run <= self.n_workers, running=sorted(self.running()), n_workers=self.n_workers)

    def ev_loop_end(self, tuner):
        self.mark_processed()
        v = self.values()
        self.check_status(tuner.tuning_status, v, "end of iteration %d" % self.iter)
        h, parts = self.ref_held(v)
        self.held[self.iter] = h
        self.run_end[self.iter] = self.running()
        self.vals_end[self.iter] = v
        if h is True and self.first_held is None:
            self.first_held = self.iter
        if not (self.sim and "max_wallclock_time" in self.crit):
            # the run's own criterion on the real status (on the simulator the wall-clock part is rewritten, see C_SIM_END)
            expected = _tri_or(parts.values())
            if expected is not None:
                got = bool(self.E.StoppingCriterion(**self.crit)(tuner.tuning_status))
                clause = C_CR[next(iter(self.crit))] if len(self.crit) == 1 else C_CR_OR
                self.check(clause, got == expected, criterion=self.crit, verdict=got, expected=expected, parts=parts, reference={k: v[k] for k in ("started", "completed", "finished", "evals", "cost", "wallclock", "mm")})
        if self.probe:
            self.check_probes(tuner.tuning_status, v)

    def ev_tuning_end(self, tuner):
        self.mark_processed()
        self.end_cb += 1

    def ev_stop_all(self, in_progress):
        self.stop_all_calls.append({"iteration": self.iter, "in_progress": in_progress})

    # ---- status against the reference
    def status_problems(self, status, v, final=False):
        """list of (clause, ok, details) for the real TuningStatus against the reference values ``v``"""
        out = []
        seen = dict(status.last_trial_status_seen)
        bad = {t: (seen.get(t), sorted(self.admissible(t))) for t in self.state if seen.get(t) not in self.admissible(t)}
        extra = sorted(set(seen) - set(self.state))
        out.append((C_ST_STATE, not bad and not extra, {"status_vs_admissible": bad, "unknown_trials_in_status": extra}))
        got = {"started": status.num_trials_started, "completed": status.num_trials_completed, "failed": status.num_trials_failed, "finished": status.num_trials_finished, "running": status.num_trials_running}
        ok = got["started"] == v["started"] and all(v[k][0] <= got[k] <= v[k][1] for k in ("completed", "failed", "finished", "running"))
        out.append((C_ST_COUNT, ok, {"counters": got, "reference": {k: v[k] for k in got}}))
        if not self.sim:
            own = self.backend.own_states()
            admissible = lambda t: {own[t]} | ({CO, PA} if t in self.alt else set())
            bad = {t: (seen.get(t), own[t]) for t in own if seen.get(t) not in admissible(t)}
            out.append((C_ST_BACKEND, not bad, {"status_vs_backend": bad}))
        rows = {t: r.get("status") for t, r in status.trial_rows.items()}
        bad = {t: (rows.get(t), sorted(self.admissible(t))) for t in self.state if rows.get(t) not in self.admissible(t)}
        out.append((C_ST_ROWS, not bad and set(rows) <= set(self.state), {"row_status_vs_admissible": bad}))
        out.append((C_ST_EVALS, status.overall_metric_statistics.count == v["evals"], {"count": status.overall_metric_statistics.count, "handed": v["evals"]}))
        if self.cost or not final:
            c = status.cost
            out.append((C_ST_COST, abs(float(c) - v["cost"]) <= 1e-9 * max(1.0, abs(v["cost"])), {"cost": c, "reference": v["cost"], "per_trial": self.cost}))
        u = status.user_time
        out.append((C_ST_UTIME, abs(float(u) - v["user_time"]) <= 1e-9 * max(1.0, abs(v["user_time"])), {"user_time": u, "reference": v["user_time"]}))
        if not final:
            w = status.wallclock_time
            out.append((C_ST_WALL, abs(w - v["wallclock"]) <= 1e-9 * max(1.0, abs(v["wallclock"])), {"wallclock_time": w, "reference": v["wallclock"]}))
        st = status.overall_metric_statistics
        bad = {m: ((st.min_metrics.get(m), st.max_metrics.get(m)), x) for m, x in v["mm"].items() if (st.min_metrics.get(m), st.max_metrics.get(m)) != x}
        out.append((C_ST_MINMAX, not bad, {"min_max_vs_reference": bad}))
        return out

    def check_status(self, status, v, where):
        for clause, ok, details in self.status_problems(status, v):
            self.check(clause, ok, where=where, **details)

    # ---- StoppingCriterion probes on the real status
    def check_probes(self, status, v):
        SC = self.E.StoppingCriterion
        sim_real_clock = v["wallclock"]

        def exact(name):
            lo, hi = v[name]
            return lo if lo == hi else None

        base = {
            "max_wallclock_time": sim_real_clock,
            "max_num_evaluations": v["evals"],
            "max_num_trials_started": v["started"],
            "max_num_trials_completed": exact("completed"),
            "max_num_trials_finished": exact("finished"),
            "max_cost": v["cost"],
        }
        # thresholds (field -> list of (value, expected)); strict as documented; no tie on the clock
        th = {}
        for f, cur in base.items():
            if cur is None:
                continue
            if f == "max_wallclock_time":
                th[f] = [(cur - 0.5, True), (cur + 0.5, False)]
            elif f == "max_cost":
                th[f] = [(cur - 0.125, True), (cur, False), (cur + 0.125, False)]
            else:
                th[f] = [(cur - 1, True), (cur, False), (cur + 1, False)]
        names = sorted(m for m in v["mm"] if m in ("loss", "acc", "epoch"))
        absent = {"never_reported": 0.0}
        if names:
            m = names[self.iter % len(names)]
            lo, hi = v["mm"][m]
            th["max_metric_value"] = [({m: hi - 0.0625}, True), ({m: hi}, False), ({m: hi + 0.0625}, False), (dict(absent, **{m: hi - 0.0625}), True)]
            th["min_metric_value"] = [({m: lo + 0.0625}, True), ({m: lo}, False), ({m: lo - 0.0625}, False), (dict(absent, **{m: lo + 0.0625}), True)]
        else:
            th["max_metric_value"] = [({"loss": -1e9}, False), (absent, False)]
            th["min_metric_value"] = [({"loss": 1e9}, False), (absent, False)]
        for f, lst in th.items():
            for val, expected in lst:
                got = bool(SC(**{f: val})(status))
                self.check(C_CR[f], got == expected, field=f, threshold=val, verdict=got, expected=expected, reference={k: v[k] for k in ("started", "completed", "finished", "evals", "cost", "wallclock", "mm")})
        # combinations: all fields given together with exactly one part holding / none holding, plus random subsets
        fields = [f for f in FIELDS if f in th]
        holding = {f: next(val for val, e in th[f] if e) for f in fields if any(e for _, e in th[f])}
        quiet = {f: [val for val, e in th[f] if not e] for f in fields}
        combos = []
        for f in holding:
            combos.append(dict({g: quiet[g][0] for g in fields if g != f}, **{f: holding[f]}))
        combos.append({g: quiet[g][-1] for g in fields})
        for _ in range(4):
            sub = [f for f in fields if self.rs.rand() < 0.5]
            if len(sub) >= 2:
                combos.append({f: (holding[f] if (f in holding and self.rs.rand() < 0.3) else quiet[f][int(self.rs.randint(len(quiet[f])))]) for f in sub})
        for kw in combos:
            expected = any(kw[f] == holding.get(f, object()) for f in kw)
            got = bool(SC(**kw)(status))
            self.check(C_CR_OR, got == expected, criterion=kw, verdict=got, expected=expected, parts_that_hold=[f for f in kw if kw[f] == holding.get(f, object())])

    # ---- after run() returned or raised
    def evaluate(self, tuner, raised, tuner_path):
        spec = self.spec
        inj = spec.get("inject")  # None | "result" | "suggest" | "no-results"
        self.mark_processed()
        # a run cut off at the poll bound is judged like any other: its clean-up block ran, and it went on past every
        # iteration after which it had to end
        self.check(C_TERMINATES, not self.stuck, polls=self.polls)
        status = tuner.tuning_status
        own = self.backend.own_states()
        # ---- exit path
        fired = isinstance(raised, (_Injected, _InjectedInterrupt)) or (inj == "no-results" and raised is not None and "no metrics" in str(raised))
        if not fired:
            inj = None
        path = "exception" if fired else ("failure-limit" if raised is not None else "normal")
        v_before = self.values()
        n_failed = v_before["failed"][0]
        if inj is None:
            self.check(C_FAIL_RAISE, (raised is not None) == (n_failed > self.max_failures), raised=repr(raised), failed=n_failed, max_failures=self.max_failures)
        self.check(C_END_CB, self.end_cb == 1, exit_path=path, on_tuning_end_calls=self.end_cb, raised=repr(raised))
        self.check(C_STOP_ALL, len(self.stop_all_calls) >= 1, exit_path=path, raised=repr(raised))
        left = sorted(t for t, s in own.items() if s == IP)
        if self.sim and self.stop_all_calls:
            # a trial whose first report arrives while stop_all advances the simulated time had not reported when stop_all
            # looked (documented: invisible to stop_all); judged are the trials that had reported by then
            left = sorted(t for t in self.stop_all_calls[-1]["in_progress"] if own.get(t) == IP)
        self.check(C_SIM_NO_RUNNING if self.sim else C_NO_RUNNING, not left, exit_path=path, left_in_progress=left, raised=repr(raised), stop_all_calls=self.stop_all_calls)
        seen = dict(status.last_trial_status_seen)
        still = sorted(t for t, s in seen.items() if s == IP)
        self.check(C_ST_NO_RUNNING, not still and status.num_trials_running == 0, exit_path=path, in_progress_in_status=still)
        # ---- final status against final trial states
        for t, s in list(self.state.items()):
            if s == IP:
                self.state[t] = SP  # terminated by stop_all
        v_final = self.values()
        problems = [(c, d) for c, ok, d in self.status_problems(status, v_final, final=True) if not ok]
        clause = C_FINAL_MIDITER if inj in ("result", "no-results") else C_FINAL
        if clause == C_FINAL_MIDITER:
            # the results handed to the aborted iteration are not required to be counted; the trial states are
            problems = [(c, d) for c, d in problems if c in (C_ST_STATE, C_ST_COUNT, C_ST_BACKEND, C_ST_ROWS)]
        self.check(clause, not problems, exit_path=path, raised=repr(raised), problems=[dict(d, failed_part=c) for c, d in problems][:3], back_end_states=own)
        # ---- final results stored
        if self.delivered > 0:
            fname = os.path.join(tuner_path, "results.csv.zip")
            rows = None
            if os.path.exists(fname):
                try:
                    rows = len(self.E.pd.read_csv(fname))
                except Exception as ex:  # unreadable counts as not stored
                    rows = repr(ex)
            self.check(C_STORED, rows == self.delivered, exit_path=path, rows_stored=rows, results_delivered_to_scheduler=self.delivered, raised=repr(raised))
        if path == "exception":
            return
        # ---- when did the run end: reference control flow on the reference data
        n_iter = self.iter
        expected, reason = None, None
        for i in range(1, n_iter + 1):
            prev = self.held.get(i - 1, False)
            if self.wait and prev is None:
                reason = "open"
                break
            must_leave = (self.exhausted_at is not None and self.exhausted_at < i) or (self.wait and prev is True)
            if must_leave and len(self.proc.get(i, ())) == 0:
                expected, reason = i, ("exhaustion" if (self.exhausted_at is not None and self.exhausted_at < i) and not (prev is True) else "waiting")
                break
            if i not in self.held:
                break
            if self.held[i] is None:
                reason = "open"
                break
            if self.held[i] and (not self.wait or len(self.run_end[i]) == 0):
                expected, reason = i, "criterion"
                break
        details = dict(iterations=n_iter, expected_last_iteration=expected, reason=reason, criterion=self.crit, wait=self.wait, exhausted_in_iteration=self.exhausted_at, held={i: h for i, h in list(self.held.items())[:40]}, running_after_processing={i: sorted(r) for i, r in list(self.proc.items())[:40]}, values_at_first_hold=None if self.first_held is None else {k: self.vals_end[self.first_held][k] for k in ("started", "completed", "finished", "evals", "cost", "wallclock", "sim_time")})
        if reason != "open":
            if expected is None and self.exhausted_at is not None and self.exhausted_at < n_iter:
                # left after exhaustion although trials were still running
                self.check(C_EXHAUST, False, terminated_by_stop_all=self.stop_all_calls[-1]["in_progress"] if self.stop_all_calls else None, **details)
            elif expected is None and self.wait and any(h is True for h in self.held.values()):
                self.check(C_WAIT, False, terminated_by_stop_all=self.stop_all_calls[-1]["in_progress"] if self.stop_all_calls else None, **details)
            else:
                self.check(C_NOT_EARLY, expected is not None, **details)
            if expected is not None:
                clause = {"criterion": C_SIM_END if self.sim else C_END_FIRST, "waiting": C_WAIT, "exhaustion": C_EXHAUST}[reason]
                killed = self.stop_all_calls[-1]["in_progress"] if self.stop_all_calls else None
                ok = n_iter == expected
                if reason in ("waiting", "exhaustion"):
                    ok = ok and killed == []
                self.check(clause, ok, terminated_by_stop_all=killed, **details)
        # ---- overshoot at the end of the last complete iteration
        if not self.wait and self.vals_end:
            last = max(self.vals_end)
            v = self.vals_end[last]
            for f, name in (("max_num_trials_started", "started"), ("max_num_trials_completed", "completed"), ("max_num_trials_finished", "finished")):
                k = self.crit.get(f)
                if k is not None:
                    val = v[name] if name == "started" else v[name][0]
                    self.check(C_OVERSHOOT, val <= k + self.n_workers, field=f, budget=k, n_workers=self.n_workers, value_at_end_of_last_iteration=val, iterations=n_iter)
            k = self.crit.get("max_num_evaluations")
            if k is not None:
                self.check(C_OVERSHOOT, v["evals"] <= k + self.handed_in_iter[last], field="max_num_evaluations", budget=k, results_in_last_iteration=self.handed_in_iter[last], value_at_end_of_last_iteration=v["evals"], iterations=n_iter)


def _describe(spec):
    d = {k: spec.get(k) for k in ("id", "family", "backend", "n_workers", "async", "wait", "sjwd", "max_failures", "criterion", "with_cost", "dt", "inject", "scheduler_seed") if spec.get(k) is not None}
    s = spec.get("scheduler", {})
    d["scheduler"] = {k: (v if k != "decisions" else {str(t): {str(e): x for e, x in dd.items()} for t, dd in list(v.items())[:6]}) for k, v in s.items()}
    if "behaviours" in spec:
        d["behaviours"] = spec["behaviours"][:6]
    if "table" in spec:
        d["table"] = spec["table"]
    return d


# --------------------------------------------------------------------------------------------------------------
# running one scenario
# --------------------------------------------------------------------------------------------------------------
def _wrap_scheduler(sched, mon):
    orig_suggest, orig_result = sched.suggest, sched.on_trial_result

    def suggest(trial_id):
        mon.ev_suggest_begin()
        out = orig_suggest(trial_id)
        mon.ev_suggest(out)
        return out

    def on_trial_result(trial, result):
        d = orig_result(trial, result)
        mon.ev_decision(trial.trial_id, d)
        return d

    sched.suggest = suggest
    sched.on_trial_result = on_trial_result


def _make_scheduler(E, spec):
    s = spec["scheduler"]
    kind = s["kind"]
    seed = spec.get("scheduler_seed", 0)
    if kind == "scripted":
        return E.ScriptedScheduler(s)
    max_t = s.get("max_t", 4)
    nx, ny = s.get("space", (1000, 1000))
    space = {"x": E.randint(0, nx - 1), "y": E.randint(0, ny - 1)}
    np.random.seed(seed)
    if kind == "fifo":
        return E.FIFOScheduler(dict(space, epochs=max_t), searcher="random", metric="loss", mode="min", random_seed=seed)
    if kind == "median":
        inner = E.FIFOScheduler(dict(space, epochs=max_t), searcher="random", metric="loss", mode="min", random_seed=seed)
        return E.MedianStoppingRule(inner, resource_attr="epoch", grace_time=1, grace_population=2, rank_cutoff=0.5)
    if kind in ("hb-stopping", "hb-promotion"):
        return E.HyperbandScheduler(dict(space, epochs=max_t), searcher="random", metric="loss", mode="min", resource_attr="epoch", max_resource_attr="epochs", type=kind[3:], grace_period=1, reduction_factor=2, random_seed=seed)
    if kind == "pbt":
        return E.PopulationBasedTraining(dict(space, epochs=max_t), metric="loss", mode="min", resource_attr="epoch", max_t=max_t, population_size=2, perturbation_interval=1, random_seed=seed)
    raise KeyError(kind)


def _make_sim_backend(E, spec, mon):
    tb = spec["table"]
    if spec.get("worker") == "scripted":
        d = tb.get("delays", (0.0,) * 5)
        return E.ScriptedWorkerSim(
            mon,
            epoch_time=tb["epoch_time"],
            simulator_config=E.SimulatorConfig(delay_on_trial_result=d[0], delay_complete_after_final_report=d[1], delay_complete_after_stop=d[2], delay_start=d[3], delay_stop=d[4]),
            tuner_sleep_time=tb["sleep"],
        )
    nx, ny, n_fid = tb["nx"], tb["ny"], tb["n_fid"]
    rows = [(x, y) for x in range(nx) for y in range(ny)]
    ev = np.zeros((len(rows), 1, n_fid, 3))
    for i, (x, y) in enumerate(rows):
        for f in range(n_fid):
            e = f + 1
            ev[i, 0, f, 0] = _loss({"x": x}, e) + 0.03125 * y
            ev[i, 0, f, 1] = 0.25 * (1 + y % 2) * e  # cumulative cost
            ev[i, 0, f, 2] = tb["epoch_time"] * (1 + (x + y) % tb["speeds"]) * e  # cumulative elapsed time
    bb = E.BlackboxTabular(
        hyperparameters=E.pd.DataFrame({"x": [r[0] for r in rows], "y": [r[1] for r in rows]}),
        configuration_space={"x": E.randint(0, nx - 1), "y": E.randint(0, ny - 1)},
        fidelity_space={"epoch": E.randint(1, n_fid)},
        objectives_evaluations=ev,
        objectives_names=["loss", "st_worker_cost", "elapsed"],
    )
    d = tb.get("delays", (0.0, 0.0, 0.0, 0.0, 0.0))
    return E.ObservedSim(
        blackbox=bb,
        elapsed_time_attr="elapsed",
        max_resource_attr="epochs",
        seed=0,
        support_checkpointing=True,
        simulator_config=E.SimulatorConfig(delay_on_trial_result=d[0], delay_complete_after_final_report=d[1], delay_complete_after_stop=d[2], delay_start=d[3], delay_stop=d[4]),
        tuner_sleep_time=tb["sleep"],
    )


def run_scenario(E, book, spec, clock, root):
    book.scenarios.add(spec["id"])
    book.families[spec["family"]] += 1
    if len(book.samples) < 4 and spec["family"] not in {s["family"] for s in book.samples}:
        book.samples.append(_describe(spec))
    mon = Mon(E, book, spec, clock)
    sim = spec["backend"] == "sim"
    with _quiet():
        scheduler = _make_scheduler(E, spec)
        if sim:
            backend = _make_sim_backend(E, spec, mon)
            backend.mon = mon
        else:
            backend = E.TickBackend(mon)
    mon.backend = backend
    _wrap_scheduler(scheduler, mon)
    crit = E.StoppingCriterion(**spec["criterion"])
    store = E.SimulatorCallback() if sim else E.StoreResultsCallback()
    name = "c12n-%d" % len(book.scenarios)
    raised = None
    mon.t0 = clock.now
    with _quiet():
        tuner = E.Tuner(
            trial_backend=backend,
            scheduler=scheduler,
            stop_criterion=crit,
            n_workers=spec["n_workers"],
            sleep_time=0.0,
            results_update_interval=1e6,
            print_update_interval=1e6,
            max_failures=spec.get("max_failures", 1),
            tuner_name=name,
            suffix_tuner_name=False,
            asynchronous_scheduling=spec.get("async", True),
            wait_trial_completion_when_stopping=bool(spec.get("wait")),
            callbacks=[store, E.Recorder(mon)],
            save_tuner=False,
            start_jobs_without_delay=spec.get("sjwd", True),
        )
        try:
            tuner.run()
        except _Stuck:
            pass
        except BaseException as ex:  # noqa: the injected interrupt is a KeyboardInterrupt
            if isinstance(ex, KeyboardInterrupt) and not isinstance(ex, _InjectedInterrupt):
                raise
            raised = ex
    path = os.path.join(root, name)
    mon.evaluate(tuner, raised, path)
    shutil.rmtree(path, ignore_errors=True)
    return mon


# --------------------------------------------------------------------------------------------------------------
# catalogue
# --------------------------------------------------------------------------------------------------------------
NEAR = {
    "max_wallclock_time": [4.4, 7.4],
    "max_num_evaluations": [0, 5, 9],
    "max_num_trials_started": [0, 3, 6],
    "max_num_trials_completed": [0, 2, 4],
    "max_num_trials_finished": [0, 2, 5],
    "max_cost": [0.0, 1.5, 3.25],
    "max_metric_value": [{"acc": 0.25}, {"acc": 0.3, "epoch": 2}, {"never_reported": 0.0, "acc": 0.375}],
    "min_metric_value": [{"loss": 3.0}, {"loss": 2.9, "acc": 0.0}, {"never_reported": 9.0, "loss": 2.5}],
}
FAR = {
    "max_wallclock_time": 60.4,
    "max_num_evaluations": 400,
    "max_num_trials_started": 200,
    "max_num_trials_completed": 200,
    "max_num_trials_finished": 200,
    "max_cost": 1000.0,
    "max_metric_value": {"acc": 50.0, "loss": 50.0},
    "min_metric_value": {"loss": -50.0, "acc": -50.0},
}
NET = {"max_wallclock_time": 24.4}


def _criteria(tier):
    """(label, criterion, set of fields that may end the run) -- every field alone, every pair (near, far), near pairs,
    triples and all together"""
    out = []
    for f in FIELDS:
        for k in NEAR[f]:
            out.append(("alone:%s" % f, {f: k}))
    for i, f in enumerate(FIELDS):
        for j, g in enumerate(FIELDS):
            if i != j:
                out.append(("pair:%s+far:%s" % (f, g), {f: NEAR[f][(i + j) % len(NEAR[f])], g: FAR[g]}))
    for i, f in enumerate(FIELDS):
        for j, g in enumerate(FIELDS):
            if i < j:
                out.append(("pair:%s+%s" % (f, g), {f: NEAR[f][-1], g: NEAR[g][-1]}))
    for i, f in enumerate(FIELDS):
        allf = {g: FAR[g] for g in FIELDS}
        allf[f] = NEAR[f][i % len(NEAR[f])]
        out.append(("all-given:%s-near" % f, allf))
    out.append(("all-given:all-near", {g: NEAR[g][-1] for g in FIELDS}))
    return out


def _needs_net(crit, family_safe):
    """a far wall-clock part is added unless one of the near parts is certain to hold eventually in this family"""
    for f, k in crit.items():
        if f in family_safe and k != FAR[f]:
            return False
    return True


def _with_net(crit, safe):
    crit = dict(crit)
    if _needs_net(crit, safe):
        if "max_wallclock_time" in crit:
            crit["max_wallclock_time"] = min(crit["max_wallclock_time"], NET["max_wallclock_time"])
        else:
            crit.update(NET)
    return crit


PLAIN_BEHAVIOURS = [
    ("two-results", [_beh(L=2)]),
    ("three-results-completion-one-poll-later", [_beh(L=3, lag=1)]),
    ("bursts-2-1", [_beh(L=3, bursts=(2, 1))]),
    ("mixed-lengths", [_beh(L=1), _beh(L=3), _beh(L=2, lag=1)]),
    ("silent-polls", [_beh(L=2, bursts=(0, 1)), _beh(L=3, bursts=(1, 0, 2))]),
    ("one-long-others-short", [_beh(L=40), _beh(L=2), _beh(L=2), _beh(L=3)]),
]
DECISION_SHAPES = [
    # (label, behaviours, scheduler part, fields certain to hold eventually)
    ("odd-trials-stopped-at-epoch-1", [_beh(L=3)], {"rule": [(2, 1, 1, STOP, False)]}, {"max_num_trials_completed", "max_num_trials_finished"}),
    ("all-paused-at-1-resumed-stopped-at-3", [_beh(L=4)], {"rule": [(1, 0, 1, PAUSE, True), (1, 0, 3, STOP, False)], "resume": "fifo"}, {"max_num_trials_finished"}),
    ("third-stopped-at-2-third-paused-for-good", [_beh(L=3), _beh(L=2, lag=1)], {"rule": [(3, 0, 2, STOP, False), (3, 1, 1, PAUSE, False)], "resume": "never"}, {"max_num_trials_finished", "max_num_trials_completed"}),
    ("stop-with-the-final-result", [_beh(L=2), _beh(L=3, bursts=(2, 1))], {"rule": [(1, 0, 2, STOP, False)]}, {"max_num_trials_finished"}),
    ("pause-with-the-final-result-then-resume", [_beh(L=2)], {"rule": [(2, 0, 2, PAUSE, True)], "resume": "lazy"}, set()),
    ("pause-at-2-lazy-resume-bursts", [_beh(L=4, bursts=(2, 1)), _beh(L=3)], {"rule": [(2, 0, 2, PAUSE, True), (2, 1, 1, STOP, False)], "resume": "lazy"}, {"max_num_trials_finished"}),
    ("all-stopped-at-1", [_beh(L=3), _beh(L=2, bursts=(2,))], {"rule": [(1, 0, 1, STOP, False)]}, {"max_num_trials_finished"}),
]
ALWAYS = {"max_wallclock_time", "max_num_evaluations", "max_num_trials_started"}


def _base(i, **kw):
    spec = {"backend": "tick", "n_workers": 1 + i % 4, "async": i % 5 != 3, "wait": i % 3 == 1, "sjwd": i % 7 != 5, "max_failures": 1, "with_cost": True, "dt": 1.0, "probe_seed": i}
    spec.update(kw)
    return spec


def catalogue_plain(tier, seed):
    out = []
    crits = _criteria(tier)
    i = 0
    for ci, (label, crit) in enumerate(crits):
        for bi, (blabel, behs) in enumerate(PLAIN_BEHAVIOURS):
            i += 1
            if tier == "quick" and (ci + bi + seed) % 3 != 0:
                continue
            safe = ALWAYS | {"max_num_trials_completed", "max_num_trials_finished", "max_cost", "max_metric_value", "min_metric_value"}
            if blabel == "one-long-others-short":
                safe = safe - ({"max_num_trials_completed", "max_num_trials_finished"} if i % 4 == 0 else set())
            c = _with_net(crit, safe)
            # metric thresholds that no reported value crosses never hold
            if any(f in ("max_metric_value", "min_metric_value") for f in c):
                c = _with_net(c, ALWAYS)
            out.append(_base(i, id="P%d/%s/%s" % (i, label, blabel), family="plain", behaviours=behs, criterion=c, scheduler={"kind": "scripted"}))
    return out


def catalogue_decisions(tier, seed):
    out = []
    crits = _criteria(tier)
    i = 0
    for ci, (label, crit) in enumerate(crits):
        for di, (dlabel, behs, sched, safe) in enumerate(DECISION_SHAPES):
            i += 1
            if (ci + di + seed) % (5 if tier == "quick" else 2) != 0:
                continue
            c = _with_net(crit, ALWAYS | safe)
            if any(f in ("max_metric_value", "min_metric_value", "max_cost") for f in c):
                c = _with_net(c, ALWAYS)
            out.append(_base(i + 1, id="D%d/%s/%s" % (i, label, dlabel), family="decisions", behaviours=behs, criterion=c, scheduler=dict(sched, kind="scripted")))
    return out


def catalogue_failures(tier):
    """m of the first trials fail (with / without results, together / staggered), max_failures 0..3, criterion far away or
    near; the failure limit holds while other trials are in progress"""
    out = []
    i = 0
    fails = {
        "at-once-without-results": lambda k: _beh(L=0, kind="fail"),
        "at-once-after-one-result": lambda k: _beh(L=1, kind="fail"),
        "staggered": lambda k: _beh(L=k % 3, kind="fail", lag=k % 2),
        "after-two-results-one-poll-later": lambda k: _beh(L=2, kind="fail", lag=1),
    }
    for flabel, mk in fails.items():
        for n_fail_every in (1, 2, 3):  # every trial / every 2nd / every 3rd trial fails
            for max_failures in (0, 1, 2, 3):
                for n_workers in (1, 2, 3, 4):
                    i += 1
                    if tier == "quick" and i % 3 != 0:
                        continue
                    behs = [mk(k) if k % n_fail_every == 0 else _beh(L=4 + k % 2) for k in range(6)]
                    crit = [{"max_wallclock_time": 30.4}, {"max_num_trials_started": 30}, {"max_num_trials_finished": 3, "max_wallclock_time": 30.4}, {"max_num_evaluations": 6, "max_num_trials_completed": 2}][i % 4]
                    sched = {"kind": "scripted"}
                    if i % 5 == 0:
                        sched["rule"] = [(2, 1, 1, STOP, False)]
                    out.append(_base(i, id="F%d/%s/every-%d/max_failures-%d" % (i, flabel, n_fail_every, max_failures), family="failures", behaviours=behs, criterion=crit, scheduler=sched, n_workers=n_workers, max_failures=max_failures, wait=i % 4 == 1))
    return out


def catalogue_exhaustion(tier):
    out = []
    i = 0
    shapes = [
        ("equal-lengths", [_beh(L=2)]),
        ("unequal-lengths", [_beh(L=1), _beh(L=3), _beh(L=2, lag=1)]),
        ("last-one-long", [_beh(L=1), _beh(L=1), _beh(L=5)]),
        ("with-a-failure", [_beh(L=2), _beh(L=1, kind="fail"), _beh(L=3)]),
    ]
    for slabel, behs in shapes:
        for n_new in (1, 2, 3, 4, 5, 6):
            for n_workers in (1, 2, 3, 4):
                i += 1
                if tier == "quick" and i % 2 != 0:
                    continue
                crit = [{"max_num_trials_started": 50}, {"max_wallclock_time": 40.4}, {"max_num_trials_completed": 2, "max_wallclock_time": 40.4}, {"max_num_trials_finished": 50, "min_metric_value": {"loss": -5.0}, "max_metric_value": {"acc": 50.0}}, {"max_num_evaluations": 4, "max_cost": 500.0}][i % 5]
                sched = {"kind": "scripted", "n_new": n_new}
                if i % 4 == 0:
                    sched.update(rule=[(2, 0, 1, PAUSE, True)], resume="fifo")
                if i % 6 == 1:
                    sched.update(rule=[(3, 1, 1, STOP, False)])
                out.append(_base(i, id="X%d/%s/%d-configs/%d-workers" % (i, slabel, n_new, n_workers), family="exhaustion", behaviours=behs, criterion=crit, scheduler=sched, n_workers=n_workers, max_failures=3, wait=i % 3 == 0))
    return out


def catalogue_exceptions(tier):
    out = []
    i = 0
    for kind in ("error", "interrupt"):
        for where, ks in (("result", (1, 2, 4, 7)), ("suggest", (1, 2, 3, 5))):
            for k in ks:
                for n_workers in (1, 2, 3):
                    i += 1
                    if tier == "quick" and i % 2 != 0:
                        continue
                    sched = {"kind": "scripted", "raise_at_%s" % where: k, "raise_kind": kind}
                    if i % 3 == 0:
                        sched["rule"] = [(2, 1, 1, STOP, False), (2, 0, 2, PAUSE, False)]
                    behs = [[_beh(L=2)], [_beh(L=1), _beh(L=3, lag=1)], [_beh(L=3, bursts=(2, 1))]][i % 3]
                    out.append(_base(i, id="E%d/%s-at-%s-%d" % (i, kind, where, k), family="exceptions", behaviours=behs, criterion={"max_num_trials_started": 20, "max_wallclock_time": 30.4}, scheduler=sched, n_workers=n_workers, inject=where, max_failures=2))
    for tid_bad in (0, 1, 2, 3):
        for n_workers in (1, 2, 3):
            for lag in (0, 1):
                i += 1
                behs = [_beh(L=2 + k % 2, lag=k % 2) for k in range(5)]
                behs[tid_bad] = _beh(L=0, kind="complete", lag=lag)
                out.append(_base(i, id="E%d/trial-%d-completes-without-results/lag-%d" % (i, tid_bad, lag), family="exceptions", behaviours=behs, criterion={"max_num_trials_started": 20, "max_wallclock_time": 30.4}, scheduler={"kind": "scripted"}, n_workers=n_workers, inject="no-results", max_failures=2))
    return out


def catalogue_random(tier, rs, n):
    out = []
    for i in range(n):
        nb = int(rs.randint(1, 5))
        behs = []
        for _ in range(nb):
            L = int(rs.choice([0, 1, 1, 2, 2, 3, 3, 4, 6]))
            kind = "fail" if (rs.rand() < 0.2 or L == 0) else "complete"
            bursts = tuple(int(x) for x in rs.choice([0, 1, 1, 1, 2, 3], size=int(rs.randint(1, 4))))
            if sum(bursts) == 0:
                bursts = bursts + (1,)
            behs.append(_beh(L=L, bursts=bursts, kind=kind, lag=int(rs.choice([0, 0, 1, 2]))))
        decisions = {}
        for tid in range(30):
            if rs.rand() < 0.5:
                decisions[tid] = {int(rs.randint(1, 5)): (STOP if rs.rand() < 0.5 else PAUSE)}
        crit = {}
        for f in FIELDS:
            if rs.rand() < 0.3:
                crit[f] = NEAR[f][int(rs.randint(len(NEAR[f])))] if rs.rand() < 0.7 else FAR[f]
        crit = _with_net(crit, ALWAYS)
        sched = {"kind": "scripted", "decisions": decisions, "resume": str(rs.choice(["fifo", "never", "lazy"]))}
        if rs.rand() < 0.3:
            sched["n_new"] = int(rs.randint(1, 9))
        out.append(_base(int(rs.randint(1000)), id="R%d" % i, family="random", behaviours=behs, criterion=crit, scheduler=sched, n_workers=int(rs.randint(1, 5)), max_failures=int(rs.randint(0, 4)), wait=bool(rs.rand() < 0.4), with_cost=bool(rs.rand() < 0.7), dt=float(rs.choice([0.25, 1.0, 2.0]))))
    return out


def catalogue_shipped(tier, seed):
    out = []
    i = 0
    kinds = ["fifo", "hb-stopping", "hb-promotion", "median", "pbt"]
    crits = [
        ("finished", {"max_num_trials_finished": 5}),
        ("completed+evals", {"max_num_trials_completed": 3, "max_num_evaluations": 40}),
        ("started", {"max_num_trials_started": 7}),
        ("wallclock", {"max_wallclock_time": 9.4}),
        ("cost+metric", {"max_cost": 6.0, "min_metric_value": {"loss": 0.5}, "max_metric_value": {"acc": 0.7}}),
        ("evals", {"max_num_evaluations": 12}),
        ("all", {"max_wallclock_time": 20.4, "max_num_evaluations": 30, "max_num_trials_started": 12, "max_num_trials_completed": 5, "max_num_trials_finished": 8, "max_cost": 20.0, "max_metric_value": {"acc": 0.69}, "min_metric_value": {"loss": 1.6}}),
    ]
    reps = 1 if tier == "quick" else 5
    for rep in range(reps):
        for ki, kind in enumerate(kinds):
            for ci, (clabel, crit) in enumerate(crits):
                i += 1
                if tier == "quick" and (ki + ci) % 2 != 0:
                    continue
                behs = [_beh(L=4), _beh(L=4, bursts=(2, 1)), _beh(L=4, lag=1), _beh(L=2, kind="fail") if (i % 3 == 0) else _beh(L=4)]
                out.append(_base(i + rep, id="S%d/%s/%s" % (i, kind, clabel), family="shipped-schedulers", behaviours=behs, criterion=_with_net(crit, ALWAYS), scheduler={"kind": kind, "max_t": 4}, scheduler_seed=100 * seed + i, max_failures=50))
    # finite search space: exhaustion with a shipped searcher
    for ki, kind in enumerate(["fifo", "hb-stopping", "median"]):
        for n_workers in (1, 2, 3, 4):
            i += 1
            if tier == "quick" and (ki + n_workers) % 2 != 0:
                continue
            out.append(_base(i, id="S%d/%s/finite-space-2x3/%d-workers" % (i, kind, n_workers), family="shipped-schedulers", behaviours=[_beh(L=4), _beh(L=3, lag=1)], criterion={"max_num_trials_started": 50, "max_wallclock_time": 60.4}, scheduler={"kind": kind, "max_t": 4, "space": (2, 3)}, scheduler_seed=100 * seed + i, n_workers=n_workers, max_failures=50))
    return out


def catalogue_sim(tier, seed):
    out = []
    i = 0
    kinds = ["fifo", "hb-stopping", "hb-promotion"]
    others = [
        ("wallclock-alone", {}),
        ("+started", {"max_num_trials_started": 4}),
        ("+completed", {"max_num_trials_completed": 2}),
        ("+finished", {"max_num_trials_finished": 3}),
        ("+evaluations", {"max_num_evaluations": 6}),
        ("+cost", {"max_cost": 2.0}),
        ("+finished+completed-far", {"max_num_trials_finished": 3, "max_num_trials_completed": 100}),
        ("+all-counts-far", {"max_num_trials_started": 100, "max_num_trials_completed": 100, "max_num_trials_finished": 100, "max_num_evaluations": 1000, "max_cost": 1000.0}),
    ]
    for ki, kind in enumerate(kinds):
        for oi, (olabel, extra) in enumerate(others):
            for wall in ((30.30017,) if olabel != "wallclock-alone" else (6.30017, 14.30017)):
                i += 1
                if tier == "quick" and olabel not in ("+finished", "wallclock-alone", "+completed") and (ki + oi + seed) % 2 != 0:
                    continue
                crit = dict(extra, max_wallclock_time=wall)
                out.append(_sim_spec(i, kind, "M%d/%s/wallclock%s" % (i, kind, olabel), crit, seed))
    # no wall-clock part (criterion not rewritten)
    for ki, kind in enumerate(kinds):
        for oi, (olabel, crit) in enumerate([("finished", {"max_num_trials_finished": 3}), ("evaluations+cost", {"max_num_evaluations": 7, "max_cost": 50.0}), ("thresholds", {"min_metric_value": {"loss": 2.0}, "max_metric_value": {"st_worker_cost": 1.9}}), ("exhaustion", {"max_num_trials_started": 100})]):
            i += 1
            if tier == "quick" and (ki + oi) % 2 != 0:
                continue
            out.append(_sim_spec(i, kind, "M%d/%s/no-wallclock/%s" % (i, kind, olabel), crit, seed, small=olabel == "exhaustion"))
    # wall-clock part combined with metric thresholds
    for ki, kind in enumerate(kinds):
        for oi, (olabel, extra) in enumerate([("+min-loss", {"min_metric_value": {"loss": 2.0}}), ("+max-cost-metric", {"max_metric_value": {"st_worker_cost": 1.4}}), ("+both", {"min_metric_value": {"loss": 1.7}, "max_metric_value": {"st_worker_cost": 50.0}})]):
            i += 1
            if tier == "quick" and (ki + oi) % 2 != 0:
                continue
            spec = _sim_spec(i, kind, "M%d/%s/wallclock%s" % (i, kind, olabel), dict(extra, max_wallclock_time=40.30017), seed)
            spec["family"] = "simulator-wallclock-with-thresholds"
            spec["route"] = {c: C_SIM_THRESH for c in (C_SIM_END, C_NOT_EARLY, C_NO_START_AFTER, C_OVERSHOOT, C_WAIT, C_EXHAUST)}
            out.append(spec)
    return out


def catalogue_sim_failures(tier, seed):
    """the library's SimulatorBackend with a scripted worker: trials that end Failed before their first report / after
    1-2 reports, every / every 2nd / every 3rd trial, max_failures 0..3, n_workers 1..4; far and near criteria"""
    out = []
    i = 0
    fails = {
        "crash-before-first-report": lambda k: _beh(L=0, kind="fail"),
        "fail-after-one-report": lambda k: _beh(L=1, kind="fail"),
        "mixed": lambda k: _beh(L=k % 3, kind="fail"),
    }
    crits = [
        {"max_num_trials_started": 25},
        {"max_wallclock_time": 25.30017},
        {"max_num_trials_finished": 6, "max_wallclock_time": 40.30017},
        {"max_num_evaluations": 12, "max_num_trials_completed": 4, "max_num_trials_started": 40},
    ]
    for flabel, mk in fails.items():
        for every in (1, 2, 3):
            for max_failures in (0, 1, 2, 3):
                for n_workers in (1, 2, 3, 4):
                    i += 1
                    if tier == "quick" and (i + seed) % 3 != 0:
                        continue
                    behs = [mk(k) if k % every == 0 else _beh(L=2 + k % 2) for k in range(6)]
                    sched = {"kind": "scripted"}
                    if i % 5 == 0:
                        sched.update(rule=[(2, 1, 1, STOP, False)])
                    if i % 7 == 0:
                        sched.update(rule=[(3, 1, 1, PAUSE, True)], resume="fifo")
                    out.append({
                        "id": "MF%d/%s/every-%d/max_failures-%d/%d-workers" % (i, flabel, every, max_failures, n_workers), "family": "simulator-scripted-worker-failures", "backend": "sim", "worker": "scripted",
                        "n_workers": n_workers, "async": i % 5 != 3, "wait": i % 4 == 1, "max_failures": max_failures, "with_cost": i % 2 == 0, "behaviours": behs,
                        "criterion": crits[i % 4], "scheduler": sched,
                        "table": {"epoch_time": 1.0, "sleep": [0.5, 1.0, 0.25][i % 3], "delays": [(0.0,) * 5, (0.0, 0.125, 0.0, 0.0, 0.0), (0.125, 0.125, 0.125, 0.25, 0.125)][i % 3]},
                        "probe": i % 3 == 0, "probe_seed": i, "max_polls": 400,
                    })  # fmt: skip
    return out


def _sim_spec(i, kind, sid, crit, seed, small=False):
    return {
        "id": sid, "family": "simulator", "backend": "sim", "n_workers": 1 + i % 4, "async": i % 5 != 3, "wait": i % 4 == 1, "max_failures": 1,
        "criterion": crit, "scheduler": {"kind": kind, "max_t": 4, "space": (2, 2) if small else (4, 3)}, "scheduler_seed": 100 * seed + i,
        "table": {"nx": 2 if small else 4, "ny": 2 if small else 3, "n_fid": 4, "epoch_time": 1.0, "speeds": 1 + i % 3, "sleep": [0.5, 1.0, 0.25][i % 3], "delays": [(0.0,) * 5, (0.0, 0.125, 0.0, 0.0, 0.0), (0.125, 0.125, 0.125, 0.25, 0.125)][i % 3]},
        "probe": i % 2 == 0, "probe_seed": i,
    }  # fmt: skip


# --------------------------------------------------------------------------------------------------------------
# entry point
# --------------------------------------------------------------------------------------------------------------
def monitor_termination(tier="quick", seed=0):
    E = _env()
    thorough = tier != "quick"
    rs = np.random.RandomState(seed)
    book = _Book()
    clock = E.Clock()
    tmp_base = [d for d in ("/dev/shm", "/var/tmp") if os.path.isdir(d) and os.access(d, os.W_OK)]
    root = tempfile.mkdtemp(prefix="c12_native_", dir=tmp_base[0] if tmp_base else None)
    old_env = os.environ.get("SYNETUNE_FOLDER")
    os.environ["SYNETUNE_FOLDER"] = root
    old_ts_time, old_tk_time = E.ts_mod.time, E.tk_mod.time
    E.ts_mod.time = clock
    E.tk_mod.time = clock
    np_state = np.random.get_state()
    old_disable = logging.root.manager.disable
    logging.disable(logging.CRITICAL)
    try:
        specs = []
        # quick tier: the seed selects a third / a fifth of the two big enumerated catalogues (every criterion shape and
        # every behaviour shape is seen by every seed, their pairing rotates)
        specs += catalogue_plain(tier, seed)
        specs += catalogue_decisions(tier, seed)
        specs += catalogue_failures(tier)
        specs += catalogue_exhaustion(tier)
        specs += catalogue_exceptions(tier)
        specs += catalogue_random(tier, rs, 2000 if thorough else 200)
        specs += catalogue_shipped(tier, seed)
        specs += catalogue_sim(tier, seed)
        specs += catalogue_sim_failures(tier, seed)
        for spec in specs:
            run_scenario(E, book, spec, clock, root)
    finally:
        E.ts_mod.time, E.tk_mod.time = old_ts_time, old_tk_time
        np.random.set_state(np_state)
        logging.disable(old_disable)
        if old_env is None:
            os.environ.pop("SYNETUNE_FOLDER", None)
        else:
            os.environ["SYNETUNE_FOLDER"] = old_env
        shutil.rmtree(root, ignore_errors=True)
    empty = [c for c in CLAUSES if book.per[c] == 0]
    if empty:
        raise RuntimeError("clauses never exercised (an empty check must not look green): %s" % empty)
    summary = (
        "real Tuner.run on an in-memory tick back end (scripted workers: <= 6 results per trial, bursts <= 3 per poll, completion / failure 0-2 polls "
        "after the last result, st_worker_cost on/off, clock dt per poll) and on UserBlackboxBackend+SimulatorCallback (BlackboxTabular 4x3 / 2x2 "
        "configs x 4 levels, 3 delay settings, 3 sleep times) and on SimulatorBackend with a scripted worker (jobs failing before the first / after 1-2 "
        "reports, every 1st-3rd trial, judged on worker truth); schedulers: scripted (STOP / PAUSE per (trial, epoch), resume fifo / lazy / never, finite plans "
        "1-8 configs, exception or interrupt at the k-th result / suggestion), FIFO, Hyperband stopping / promotion, median rule, PBT; n_workers 1-4, "
        "asynchronous_scheduling on/off, wait_trial_completion_when_stopping on/off, start_jobs_without_delay on/off, max_failures 0-3; criteria: every field "
        "alone (2-3 thresholds incl. 0), every ordered pair near+far, every pair near+near, all 8 given with one near, all near; at every loop end "
        "~40 probe criteria (each field at value-1 / value / value+1, all fields together with exactly one part holding, random subsets); <= %d polls per run; "
        "scenarios per family: %s; checks per clause: %s; violations per clause: %s"
        % (MAX_POLLS_TICK, json.dumps(book.families, sort_keys=True), json.dumps(book.per, sort_keys=True), json.dumps(book.nviol, sort_keys=True))
    )
    return {
        "evaluations": book.n,
        "distinct": len(book.scenarios),
        "clauses": list(CLAUSES),
        "violations": book.viol,
        "samples": book.samples[:4],
        "summary": summary,
    }
