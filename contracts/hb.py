"""Shared declarations for the asynchronous Hyperband rung systems
(hyperband_stopping.py, hyperband_promotion.py): class shapes, class
invariants, abstract views and spec functions."""
from pyvc.spec import *

HB_STOP = "syne_tune.optimizer.schedulers.hyperband_stopping"
HB_PROM = "syne_tune.optimizer.schedulers.hyperband_promotion"


# -- spec functions -----------------------------------------------------------


def rung_sign(r):
    return 1 if r._is_min else -1


def rung_key(owner, x):
    return rung_sign(owner) * x.metric_val


def asc_val(r, i):
    """i-th smallest metric value of rung r (r.data is sorted best-first)"""
    n = len(r.data)
    return r.data[i].metric_val if r._is_min else r.data[n - 1 - i].metric_val


def q_eff(r):
    return r.prom_quant if r._is_min else 1 - r.prom_quant


def np_quantile_linear(r):
    """numpy.quantile(metric values of r, q_eff(r)) with method="linear":
    virtual index (n-1)*q, linear interpolation between its neighbours.
    Only meaningful for n >= 1."""
    n = len(r.data)
    virt = (n - 1) * q_eff(r)
    lo = floor_int(virt)
    g = virt - lo
    hi = ite(lo + 1 < n, lo + 1, n - 1)
    return (1 - g) * asc_val(r, lo) + g * asc_val(r, hi)


def rung_inv(r):
    sign = rung_sign(r)
    n = len(r.data)
    return {
        "quant": 0 < r.prom_quant and r.prom_quant < 1,
        "sorted": forall(range(0, n - 1), lambda i: sign * r.data[i].metric_val <= sign * r.data[i + 1].metric_val),
        "ids-in": forall(range(0, n), lambda i: r.data[i].trial_id in r._trial_ids),
        "ids-distinct": forall(range(0, n), lambda i: forall(range(0, n), lambda j: implies(i != j, r.data[i].trial_id != r.data[j].trial_id))),
        "ids-card": len(r._trial_ids) == n,
    }


# -- class shapes ---------------------------------------------------------------

declare_class("RungEntry", HB_STOP + ":RungEntry", dict(trial_id=Str, metric_val=Real))

declare_class(
    "Rung",
    HB_STOP + ":Rung",
    dict(level=Int, prom_quant=Real, _is_min=Bool, data=SortedListT(Obj("RungEntry"), key="rung_key"), _trial_ids=SetT(Str)),
    inv="rung_inv",
    builder="rung",
)
