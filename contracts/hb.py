"""Shared declarations for the asynchronous Hyperband rung systems
(hyperband_stopping.py, hyperband_promotion.py): class shapes, class
invariants, abstract views and spec functions."""
from pyvc.spec import *

HB_STOP = "syne_tune.optimizer.schedulers.hyperband_stopping"
HB_PROM = "syne_tune.optimizer.schedulers.hyperband_promotion"


# -- spec functions -----------------------------------------------------------


def rung_sign(r):
    return 1 if r._is_min else -1


def rung_key(owner, x):
    return rung_sign(owner) * x.metric_val


def asc_val(r, i):
    """i-th smallest metric value of rung r (r.data is sorted best-first)"""
    n = len(r.data)
    return r.data[i].metric_val if r._is_min else r.data[n - 1 - i].metric_val


def q_eff(r):
    return r.prom_quant if r._is_min else 1 - r.prom_quant


def np_quantile_linear(r):
    """numpy.quantile(metric values of r, q_eff(r)) with method="linear":
    virtual index (n-1)*q, linear interpolation between its neighbours.
    Only meaningful for n >= 1."""
    n = len(r.data)
    virt = (n - 1) * q_eff(r)
    lo = floor_int(virt)
    g = virt - lo
    hi = ite(lo + 1 < n, lo + 1, n - 1)
    return (1 - g) * asc_val(r, lo) + g * asc_val(r, hi)


def rung_inv(r):
    sign = rung_sign(r)
    n = len(r.data)
    return {
        "quant": 0 < r.prom_quant and r.prom_quant < 1,
        "sorted": forall(range(0, n - 1), lambda i: sign * r.data[i].metric_val <= sign * r.data[i + 1].metric_val),
        "ids-in": forall(range(0, n), lambda i: r.data[i].trial_id in r._trial_ids),
        "ids-distinct": forall(range(0, n), lambda i: forall(range(0, n), lambda j: implies(i != j, r.data[i].trial_id != r.data[j].trial_id))),
        "ids-card": len(r._trial_ids) == n,
    }


# -- class shapes ---------------------------------------------------------------

declare_class("RungEntry", HB_STOP + ":RungEntry", dict(trial_id=Str, metric_val=Real))

declare_class(
    "Rung",
    HB_STOP + ":Rung",
    dict(level=Int, prom_quant=Real, _is_min=Bool, data=SortedListT(Obj("RungEntry"), key="rung_key"), _trial_ids=SetT(Str)),
    inv="rung_inv",
    builder="rung",
)

declare_class(
    "StoppingRungSystem",
    HB_STOP + ":StoppingRungSystem",
    dict(num_rungs=Int, _metric=Lit("loss"), _mode=Enum("min", "max"), _resource_attr=Lit("epoch"), _max_t=Int, _rungs=List(Obj("Rung"))),
    inv="rungsys_inv",
)


def rungsys_inv(rs):
    """rungs are stored top-down: strictly decreasing positive levels, all below max_t,
    every rung sorted for the system's mode"""
    n = len(rs._rungs)
    return {
        "num": rs.num_rungs == n,
        "levels-decreasing": forall(range(0, n - 1), lambda i: rs._rungs[i].level > rs._rungs[i + 1].level),
        "levels-positive": forall(range(0, n), lambda i: rs._rungs[i].level >= 1),
        "below-max": (rs._rungs[0].level < rs._max_t) if n > 0 else True,
        "mode": forall(range(0, n), lambda i: rs._rungs[i]._is_min == (rs._mode == "min")),
    }


def same_entry(a, b):
    return unchanged(a, b)


def inserted(new, old, e_id, e_val):
    """rung ``new`` is rung ``old`` with one entry (e_id, e_val) inserted, nothing else changed"""
    n = len(old.data)
    return (
        len(new.data) == n + 1
        and new.level == old.level
        and new.prom_quant == old.prom_quant
        and new._is_min == old._is_min
        and exists(
            range(0, n + 1),
            lambda p: new.data[p].trial_id == e_id
            and new.data[p].metric_val == e_val
            and forall(range(0, n + 1), lambda i: same_entry(new.data[i], old.data[i]) if i < p else True)
            and forall(range(0, n + 1), lambda i: same_entry(new.data[i], old.data[i - 1]) if i > p else True),
        )
    )


def stop_rule(r, metric, cont):
    """documented rule with tie latitude: strictly better than the quantile of the rung
    (own value included) => continue, strictly worse => stop, fewer than 2 entries => continue"""
    n = len(r.data)
    if n < 2:
        return cont == True  # noqa: E712
    q = np_quantile_linear(r)
    better = metric < q if r._is_min else metric > q
    worse = metric > q if r._is_min else metric < q
    return implies(better, cont) and implies(worse, not cont)

# -- promotion-type rung systems -------------------------------------------------------------

HB_COST = "syne_tune.optimizer.schedulers.hyperband_cost_promotion"

declare_class("PEntry", HB_PROM + ":PromotionRungEntry", dict(trial_id=Str, metric_val=Real, was_promoted=Bool))

declare_class(
    "PRung",
    HB_STOP + ":Rung",
    dict(level=Int, prom_quant=Real, _is_min=Bool, data=SortedListT(Obj("PEntry"), key="rung_key"), _trial_ids=SetT(Str)),
    inv="rung_inv",
    builder="prung",
)

RUNNING_T = Map(Str, Rec(milestone=Int, resume_from=Opt(Int)))

declare_class(
    "PromotionRungSystem",
    HB_PROM + ":PromotionRungSystem",
    dict(num_rungs=Int, _metric=Lit("loss"), _mode=Enum("min", "max"), _resource_attr=Lit("epoch"), _max_t=Int, _rungs=List(Obj("PRung")), _running=RUNNING_T),
    inv="rungsys_inv",
)

declare_class("CEntry", HB_COST + ":CostPromotionRungEntry", dict(trial_id=Str, metric_val=Real, was_promoted=Bool, cost_val=Real))

declare_class(
    "CRung",
    HB_STOP + ":Rung",
    dict(level=Int, prom_quant=Real, _is_min=Bool, data=SortedListT(Obj("CEntry"), key="rung_key"), _trial_ids=SetT(Str)),
    inv="rung_inv",
    builder="crung",
)

declare_class(
    "CostPromotionRungSystem",
    HB_COST + ":CostPromotionRungSystem",
    dict(num_rungs=Int, _metric=Lit("loss"), _mode=Enum("min", "max"), _resource_attr=Lit("epoch"), _cost_attr=Lit("cost"), _max_t=Int, _rungs=List(Obj("CRung")), _running=RUNNING_T),
    inv="rungsys_inv",
)


def strictly_better(r, metric, q):
    return metric < q if r._is_min else metric > q


def strictly_worse(r, metric, q):
    return metric > q if r._is_min else metric < q


def first_unpromoted(r, f):
    """f is the position of the first entry of r that has not been promoted"""
    return 0 <= f and f < len(r.data) and (not r.data[f].was_promoted) and forall(range(0, len(r.data)), lambda i: r.data[i].was_promoted if i < f else True)


def all_promoted(r):
    return forall(range(0, len(r.data)), lambda i: r.data[i].was_promoted)


def none_eligible(r):
    """no entry of rung r *must* be promoted: fewer than two entries, or everything promoted,
    or the only candidate (first un-promoted entry) is not strictly better than the quantile"""
    n = len(r.data)
    if n < 2:
        return True
    q = np_quantile_linear(r)
    return all_promoted(r) or exists(range(0, n), lambda f: first_unpromoted(r, f) and not strictly_better(r, r.data[f].metric_val, q))


def promotable_spec(r, result):
    """specification of PromotionRungSystem._find_promotable_trial (tie latitude at the quantile)"""
    n = len(r.data)
    if n < 2:
        return result is None
    q = np_quantile_linear(r)
    if result is None:
        return none_eligible(r)
    pos = result[1]
    return first_unpromoted(r, pos) and result[0] == r.data[pos].trial_id and not strictly_worse(r, r.data[pos].metric_val, q)


def moved_promoted(new, old, pos):
    """rung ``new`` is ``old`` with entry ``pos`` flagged promoted and re-inserted
    (it may move among entries of equal metric); all other entries keep their relative order"""
    n = len(old.data)
    return (
        len(new.data) == n
        and new.level == old.level
        and new.prom_quant == old.prom_quant
        and new._is_min == old._is_min
        and exists(
            range(0, n),
            lambda p: new.data[p].trial_id == old.data[pos].trial_id
            and new.data[p].metric_val == old.data[pos].metric_val
            and new.data[p].was_promoted
            and forall(range(0, n - 1), lambda i: same_entry(new.data[i + (1 if i >= p else 0)], old.data[i + (1 if i >= pos else 0)])),
        )
    )


HB_PASHA = "syne_tune.optimizer.schedulers.hyperband_pasha"


def pasha_inv(rs):
    """rungsys invariant plus: the current cap is a rung level or max_t, and at least one rung"""
    out = rungsys_inv(rs)
    n = len(rs._rungs)
    out["at-least-one-rung"] = n >= 1
    out["cap-is-level"] = rs.current_max_t == rs._max_t or exists(range(0, n), lambda i: rs._rungs[i].level == rs.current_max_t)
    return out


declare_class(
    "PASHARungSystem",
    HB_PASHA + ":PASHARungSystem",
    dict(num_rungs=Int, _metric=Lit("loss"), _mode=Enum("min", "max"), _resource_attr=Lit("epoch"), _max_t=Int, _rungs=List(Obj("PRung")), _running=RUNNING_T, current_max_t=Int, current_rung_idx=Int),
    inv="pasha_inv",
)

# -- bracket manager (hyperband.py) -----------------------------------------------------------------

HB_MAIN = "syne_tune.optimizer.schedulers.hyperband"


def mgr_inv(mg):
    """HyperbandBracketManager: ``rung_levels`` strictly increasing below max_t; rung system s holds the
    levels rung_levels[s:] (top-down); one system when shared, one per bracket otherwise"""
    L = mg.rung_levels
    k = len(L)
    m = len(mg._rung_systems)
    return {
        "levels-increasing": forall(range(0, k - 1), lambda i: L[i] < L[i + 1]),
        "levels-positive": forall(range(0, k), lambda i: L[i] >= 1),
        "levels-below-max": (L[k - 1] < mg._max_t) if k > 0 else True,
        "brackets": 1 <= mg.num_brackets and mg.num_brackets <= k + 1,
        "systems": m == (mg.num_brackets if mg._rung_system_per_bracket else 1),
        "system-levels": forall(
            range(0, m),
            lambda s: len(mg._rung_systems[s]._rungs) == k - s
            and mg._rung_systems[s]._max_t == mg._max_t
            and forall(range(0, k - s), lambda i: mg._rung_systems[s]._rungs[i].level == L[k - 1 - i]),
        ),
        "task-info": True,
    }


declare_class(
    "StoppingManager",
    HB_MAIN + ":HyperbandBracketManager",
    dict(
        _scheduler_type=Lit("stopping"),
        _resource_attr=Lit("epoch"),
        _max_t=Int,
        rung_levels=List(Int),
        _rung_system_per_bracket=Bool,
        _task_info=Map(Str, Int),
        num_brackets=Int,
        _rung_systems=List(Obj("StoppingRungSystem")),
    ),
    inv="mgr_inv",
)


def mgr_shapes(max_levels, entries=None):
    """consistent concrete shapes of a bracket manager: k levels, shared (1 system) or per-bracket (m systems)"""
    out = []
    for k in range(1, max_levels + 1):
        for m in range(1, k + 2):
            sh = {"self.rung_levels": k, "self._rung_systems": m}
            for s in range(m):
                sh["self._rung_systems[%d]._rungs" % s] = max(k - s, 0)
            if entries is not None:
                sh["*"] = entries
            out.append(sh)
    return out
