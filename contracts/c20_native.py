"""C20 -- native run-time contract monitor: a check-point exists whenever a trial is resumed or warm-started from it.

``monitor_checkpoints(tier, seed)`` drives the REAL ``Tuner.run`` loop with the REAL pause-and-resume schedulers of the
library (promotion / PASHA / RUSH-promotion / cost-aware promotion ``HyperbandScheduler`` with and without
``early_checkpoint_removal_kwargs``, ``SynchronousHyperbandScheduler`` and its geometric variant, DEHB and geometric DEHB with
``support_pause_resume`` on and off, ``PopulationBasedTraining``; plus a scripted scheduler which pauses, stops, resumes and
warm-starts at random) over a small in-memory ``TrialBackend`` subclass.  Only the abstract hooks of the back end are
scripted (a worker trains some epochs between two polls, overwrites its check-point after every epoch and reports one result
per epoch; a job started for a trial continues from its check-point when there is one and from scratch otherwise);
``start_trial / resume_trial / pause_trial / stop_trial / stop_all / fetch_status_results`` are the library's code.

The reference is a ghost state kept by the monitor (``Mon``): per trial its life-cycle state as told to the back end, whether
its check-point exists, who removed it and in which state the trial was then; the decisions of the scheduler
(``on_trial_result`` is observed); for synchronous Hyperband an independent model of the rungs (which trials compete in
which rung, their metric values at the rung level, failed slots) from which "can provably never be resumed" is decided:
the rung is complete and there is a valid choice of the promoted trials (best ``n`` values, NaN last, ANY choice among tied
values) which contains none of the trials whose check-points were removed; or the trial finished the last rung of its bracket.

What the statement leaves open and the monitor therefore allows: ties in a rung (any consistent choice), the time at which
a removable check-point is actually removed (never is fine), removal of anything once tuning has ended, removal of
check-points of trials which ended on their own (completed / failed); with speculative early removal explicitly requested
(``early_checkpoint_removal_kwargs`` AND ``delete_checkpoints=True``) check-points of PAUSED trials may go and such a trial may be
resumed without one (documented: it restarts from scratch).

Known defect of the unchanged tree kept apart under its own clause (C_CLONE_F8, finding F8): PBT can stop a trial which is
the source of a still pending clone decision (the source reaches ``max_t``, or is itself exploited away, later in the same
batch of results), so the next ``suggest`` clones from a stopped trial whose check-point was removed.  A clone whose source
was already stopped / without check-point when the decision was taken is NOT routed there (C_CLONE_DEC, C_CLONE).

Not part of C20 but met on the way and kept under its own clause instead of being dropped (C_SPEC_CRASH): the score-based
``HyperbandRemoveCheckpointsCallback`` raises ValueError in ``on_loop_end`` and thereby ends the tuning loop (a) when more
check-points are counted than ``max_num_checkpoints`` but no paused trial holds one (a FAILED trial stays counted as running:
the call-back has no failure hook) and (b) when every candidate is promotable right away
(``compute_probabilities_of_getting_resumed`` takes ``np.max`` of an empty array).  Configurations which run into (a) / (b)
almost always (more workers than ``max_num_checkpoints``, PASHA, RUSH) use the base-line call-backs instead, see
``_safe_removal``.

Scenario design (no checks): workers of synchronous Hyperband crash only while their rung keeps enough valid results
(otherwise a FAILED trial is promoted and the generic back end refuses to resume it, cf. F18); rungs with too few valid
results come from trials which REPORT NaN.  DEHB runs without crashing workers and with the maximum number of brackets
(F17 - F20), PASHA with one bracket (F14) and without tied metric values (its decisions then depend on PYTHONHASHSEED).
"""
import contextlib
import io
import itertools
import json
import logging
import os
import shutil
import tempfile
import traceback

import numpy as np

CONTINUE, PAUSE, STOP = "CONTINUE", "PAUSE", "STOP"

C_OFF = "deletion-off/no-check-point-is-deleted-during-tuning"
C_OFF_END = "deletion-off/no-check-point-is-deleted-at-the-end-of-tuning-either"
C_OFF_WARM = "deletion-off/after-tuning-a-new-trial-can-be-warm-started-from-every-trial-that-trained"
C_RUNNING = "deletion-on/check-point-of-a-running-trial-is-never-deleted"
C_STOPDEC = "deletion-on/stop_trial-deletes-only-after-a-STOP-decision-of-the-scheduler-for-that-trial"
C_PAUSED = "deletion-on/paused-trial-keeps-its-check-point-unless-it-can-provably-never-be-resumed-or-speculative-removal-was-requested"
C_INV = "deletion-on/after-every-loop-iteration-every-paused-trial-that-may-still-be-resumed-has-its-check-point"
C_RESUME = "resume/check-point-of-the-resumed-trial-exists-(was-not-deleted-before)"
C_RESUME_SPEC = "resume/speculative-removal-requested-a-resumed-trial-lacks-its-check-point-only-if-it-was-removed-speculatively-while-paused"
C_CLONE = "warm-start/source-check-point-exists-(was-not-deleted-before)-when-a-new-trial-is-started-from-it"
C_CLONE_DEC = "pbt/clone-decision-picks-a-source-that-is-not-stopped-and-whose-check-point-exists"
C_CLONE_F8 = "pbt/source-of-a-pending-clone-decision-is-not-stopped-before-the-clone-starts"
C_COPY = "warm-start/check-point-is-copied-before-the-new-trial-is-scheduled-and-only-when-requested"
C_TERM = "scenario/tuning-loop-ends-without-exception"
C_SPEC_CRASH = "speculative/score-based-removal-call-back-does-not-abort-the-tuning-loop"

CLAUSES = [C_OFF, C_OFF_END, C_OFF_WARM, C_RUNNING, C_STOPDEC, C_PAUSED, C_INV, C_RESUME, C_RESUME_SPEC, C_CLONE, C_CLONE_DEC, C_CLONE_F8, C_COPY, C_TERM, C_SPEC_CRASH]

MAX_VIOLATIONS_PER_CLAUSE = 5
METRIC, RESOURCE, COST, MAX_RES = "loss", "epoch", "cost", "epochs"
ORDERS = ("epoch-major", "epoch-major-reversed", "trial-major", "trial-major-reversed", "random")
TABLE = 64
SAMPLE_FAMILIES = ("sync-hyperband", "hyperband", "pbt", "dehb")

_ENV = None


# --------------------------------------------------------------------------------------------------------------
# bookkeeping
# --------------------------------------------------------------------------------------------------------------
class Ctx:
    def __init__(self, seed, tier):
        self.seed, self.tier = seed, tier
        self.evaluations = 0
        self.counts = {c: 0 for c in CLAUSES}
        self.violations = []
        self.stored = {}
        self.total_violations = {}
        self.scenarios = set()
        self.families = {}
        self.spec = None
        self.samples = []
        self.stats = {"resumes": 0, "warm-starts": 0, "deletions-during-tuning": 0, "pauses": 0, "stops": 0, "resumes-without-check-point-after-speculative-removal": 0}

    def begin(self, spec):
        self.spec = spec
        self.scenarios.add(json.dumps(spec, sort_keys=True, default=str))
        fam = spec["family"]
        self.families[fam] = self.families.get(fam, 0) + 1
        if fam in SAMPLE_FAMILIES and self.families[fam] == 2 and fam not in [s["family"] for s in self.samples]:
            self.samples.append(json.loads(json.dumps(spec, default=str)))

    def check(self, clause, ok, **details):
        self.evaluations += 1
        self.counts[clause] += 1
        if not ok:
            self.total_violations[clause] = self.total_violations.get(clause, 0) + 1
            if self.stored.get(clause, 0) < MAX_VIOLATIONS_PER_CLAUSE:
                self.stored[clause] = self.stored.get(clause, 0) + 1
                v = {"clause": clause, "monitor_seed": self.seed, "tier": self.tier}
                v.update(details)
                v["scenario"] = self.spec
                self.violations.append(json.loads(json.dumps(v, default=str)))
        return bool(ok)


# --------------------------------------------------------------------------------------------------------------
# independent model of the rungs of synchronous Hyperband ("can provably never be resumed")
# --------------------------------------------------------------------------------------------------------------
class SyncRungModel:
    """Which trials compete in which rung (told by the jobs the bracket manager hands out), the value each of them
    reported at the rung level (NaN for a failed one).  Nothing else of the scheduler is read."""

    def __init__(self, bracket_rungs, mode):
        self.spec = [[(int(s), int(l)) for s, l in rungs] for rungs in bracket_rungs]
        self.sign = -1.0 if mode == "max" else 1.0
        self.rungs = {}  # (bracket_id, rung_index) -> dict
        self.where = {}  # trial_id -> key of the rung the trial was last assigned to

    def _rung(self, bracket_id, rung_index):
        key = (bracket_id, rung_index)
        if key not in self.rungs:
            rungs = self.spec[bracket_id % len(self.spec)]
            size, level = rungs[rung_index]
            next_len = rungs[rung_index + 1][0] if rung_index + 1 < len(rungs) else None
            self.rungs[key] = dict(size=size, level=level, next_len=next_len, values={}, failed_slots=0, removed=[])
        return key, self.rungs[key]

    def assign(self, bracket_id, rung_index, trial_id):
        key, rung = self._rung(bracket_id, rung_index)
        if trial_id is None:
            rung["failed_slots"] += 1  # no configuration could be suggested: the slot counts as failed
        else:
            rung["values"][trial_id] = None
            self.where[trial_id] = key

    def pending_level(self, trial_id):
        key = self.where.get(trial_id)
        if key is None or self.rungs[key]["values"].get(trial_id, 0) is not None:
            return None
        return self.rungs[key]["level"]

    def report(self, trial_id, level, value):
        if self.pending_level(trial_id) == level:
            self.rungs[self.where[trial_id]]["values"][trial_id] = float(value)

    def failed(self, trial_id):
        if self.pending_level(trial_id) is not None:
            self.rungs[self.where[trial_id]]["values"][trial_id] = float("nan")

    def may_fail(self, trial_id):
        """scenario design, not a check: a worker may crash only while its rung keeps enough valid results to fill the next
        one (otherwise synchronous Hyperband promotes a FAILED trial, which the generic back end refuses to resume -- outside
        C20, cf. finding F18); rungs with too few valid results are produced with trials that REPORT NaN instead"""
        key = self.where.get(trial_id)
        if key is None:
            return False
        rung = self.rungs[key]
        if rung["next_len"] is not None and rung.get("crashes", 0) + 1 > rung["size"] - rung["next_len"]:
            return False
        rung["crashes"] = rung.get("crashes", 0) + 1
        return True

    def _key(self, v):
        return float("inf") if v != v else self.sign * v

    def never_resumed(self, trial_id):
        """(verdict, why): may the check-point of this paused trial go, together with those removed from its rung so far?"""
        key = self.where.get(trial_id)
        if key is None:
            return False, "trial was never assigned to a rung"
        rung = self.rungs[key]
        vals = rung["values"]
        if vals.get(trial_id) is None:
            return False, "trial has not reported at its rung level %d" % rung["level"]
        if rung["next_len"] is None:
            return True, "trial finished the last rung of its bracket"
        complete = len(vals) + rung["failed_slots"] == rung["size"] and all(v is not None for v in vals.values())
        if not complete:
            return False, "rung %s (level %d, size %d) is not complete: %s" % (key, rung["level"], rung["size"], vals)
        new_len = rung["next_len"]
        removed = set(rung["removed"]) | {trial_id}
        keys = {t: self._key(v) for t, v in vals.items()}
        # failed slots without a trial rank with the NaN ones but have no check-point and cannot be promoted
        ranked = sorted(keys.values())
        if new_len >= len(ranked):
            return False, "all %d trials of the rung fit into the next one (%d slots)" % (len(ranked), new_len)
        cut = ranked[new_len - 1]  # value of the worst promoted trial under every valid choice
        better = [t for t in keys if keys[t] < cut]
        tied = [t for t in keys if keys[t] == cut]
        if any(t in removed for t in better):
            return False, "a removed trial is strictly among the best %d of the complete rung %s: %s" % (new_len, key, vals)
        if len([t for t in tied if t not in removed]) < new_len - len(better):
            return False, "not enough trials with a check-point left to fill the %d slots of the next rung from rung %s: %s, removed %s" % (new_len, key, vals, sorted(removed))
        rung["removed"].append(trial_id)
        return True, "rung complete, trial not among the promoted ones under a valid choice"


# --------------------------------------------------------------------------------------------------------------
# the ghost state of one scenario
# --------------------------------------------------------------------------------------------------------------
class Mon:
    def __init__(self, ctx, spec):
        self.ctx = ctx
        self.spec = spec
        self.delete_on = bool(spec["delete"])
        self.speculative = bool(spec.get("speculative")) and self.delete_on
        self.phase = "tuning"  # tuning | ending | after
        self.seq = 0
        self.trials = {}
        self.events = []
        self.in_stop = None
        self.start_request = None
        self.copied = None
        self.sync = None  # SyncRungModel for synchronous Hyperband
        self.pbt_stack = []  # mirror of the pending clone decisions of PBT
        self.pbt_mirror_ok = True
        self.current_clone = None
        self.off_deleted = []
        self.polls = 0

    # -- helpers ---------------------------------------------------------------------------------------------
    def t(self, tid):
        if tid not in self.trials:
            self.trials[tid] = dict(state="new", ckpt=False, deleted=None, decision=None, trained=False, level=0)
        return self.trials[tid]

    def log(self, *ev):
        self.seq += 1
        self.events.append((self.seq,) + ev)

    def tail(self, n=14):
        return [list(e) for e in self.events[-n:]]

    def where(self):
        return {"poll": self.polls, "step": self.seq}

    # -- scheduler side (observed) -----------------------------------------------------------------------------
    def on_decision(self, tid, result, decision):
        t = self.t(tid)
        t["decision"] = decision
        self.log("decision", tid, int(result.get(RESOURCE, -1)), decision)
        if self.sync is not None:
            self.sync.report(tid, int(result[RESOURCE]), float(result[METRIC]))

    def on_error(self, tid):
        self.log("trial-error-told-to-scheduler", tid)
        if self.sync is not None:
            self.sync.failed(tid)

    def on_clone_decision(self, by_tid, src):
        s = self.t(src)
        alive = bool(s["ckpt"]) and s["state"] != "stopped"
        self.log("clone-decision", by_tid, "from", src)
        self.ctx.check(C_CLONE_DEC, alive, source=src, decided_on_result_of=by_tid, source_state=s["state"], source_check_point_exists=s["ckpt"], source_deleted=s["deleted"], events=self.tail(), **self.where())
        self.pbt_stack.append(dict(src=src, alive=alive, step=self.seq, by=by_tid))

    def on_suggestion(self, suggestion):
        self.current_clone = None
        if suggestion is None:
            return
        src = suggestion.checkpoint_trial_id
        if suggestion.spawn_new_trial_id and src is not None and self.spec["family"] == "pbt" and self.pbt_mirror_ok:
            for i in range(len(self.pbt_stack) - 1, -1, -1):
                if self.pbt_stack[i]["src"] == src:
                    self.current_clone = self.pbt_stack.pop(i)
                    break

    # -- back end side ---------------------------------------------------------------------------------------
    def begin_start(self, src):
        self.start_request = ("start", src)
        self.copied = None

    def end_start(self):
        self.start_request = None
        self.copied = None
        self.current_clone = None

    def on_copy(self, src, tgt):
        s = self.t(src)
        self.log("copy-check-point", src, "->", tgt, "exists" if s["ckpt"] else "MISSING")
        self.copied = (src, tgt)
        details = dict(source=src, new_trial=tgt, source_state=s["state"], source_deleted=s["deleted"], events=self.tail(), **self.where())
        if self.phase == "after":
            self.ctx.check(C_OFF_WARM, s["ckpt"], **details)
            return
        self.ctx.stats["warm-starts"] += 1
        entry = self.current_clone
        if entry is not None and entry["alive"]:
            # the decision was taken while the source was alive: anything that removed it since is the known defect F8
            self.ctx.check(C_CLONE_F8, s["ckpt"], clone_decided_at_step=entry["step"], decided_on_result_of=entry["by"], **details)
        else:
            self.ctx.check(C_CLONE, s["ckpt"], **details)
        if s["ckpt"]:
            self.t(tgt)["ckpt"] = True

    def on_schedule(self, tid, from_epoch, is_new):
        t = self.t(tid)
        t["state"] = "running"
        self.log("schedule", tid, "from-epoch", from_epoch)
        if is_new and self.start_request is not None:
            src = self.start_request[1]
            if src is not None:
                ok = self.copied == (src, tid)
            else:
                ok = self.copied is None
            self.ctx.check(C_COPY, ok, new_trial=tid, requested_source=src, copied=self.copied, events=self.tail(), **self.where())

    def on_write(self, tid, epoch):
        t = self.t(tid)
        t["ckpt"] = True
        t["deleted"] = None
        t["trained"] = True
        t["level"] = epoch

    def on_ended(self, tid, how):
        self.t(tid)["state"] = how  # completed | failed
        self.log(how, tid)

    def on_pause(self, tid):
        self.t(tid)["state"] = "paused"
        self.ctx.stats["pauses"] += 1
        self.log("pause", tid)

    def on_stop(self, tid):
        t = self.t(tid)
        t["state_before_stop"] = t["state"]
        t["state"] = "stopped"
        self.ctx.stats["stops"] += 1
        self.log("stop", tid)

    def on_resume(self, tid):
        t = self.t(tid)
        self.ctx.stats["resumes"] += 1
        self.log("resume", tid, "check-point-exists" if t["ckpt"] else "check-point-MISSING")
        details = dict(trial=tid, state=t["state"], deleted=t["deleted"], events=self.tail(), **self.where())
        if self.speculative:
            d = t["deleted"]
            ok = bool(t["ckpt"]) or not t["trained"] or (d is not None and d["by"] == "callback" and d["state"] == "paused")
            if not t["ckpt"] and ok:
                self.ctx.stats["resumes-without-check-point-after-speculative-removal"] += 1
            self.ctx.check(C_RESUME_SPEC, ok, **details)
        else:
            # a trial that never wrote a check-point (it failed in its first epoch) has none that could have been deleted
            self.ctx.check(C_RESUME, bool(t["ckpt"]) or not t["trained"], **details)

    def on_delete(self, tid):
        t = self.t(tid)
        by = "stop_trial" if self.in_stop == tid else ("stop_all" if self.phase == "ending" else "callback")
        state = t["state"]
        existed = t["ckpt"]
        self.log("delete-check-point", tid, "by", by, "state", state, "existed" if existed else "absent")
        details = dict(trial=tid, state=state, by=by, last_decision=t["decision"], events=self.tail(), **self.where())
        if self.phase == "after":
            return
        if not self.delete_on:
            if self.phase == "tuning":
                self.off_deleted.append(tid)
                self.ctx.check(C_OFF, False, **details)
            else:
                self.ctx.check(C_OFF_END, False, **details)
            t["ckpt"] = False
            t["deleted"] = dict(step=self.seq, by=by, state=state, justified=False)
            return
        justified, why = True, "tuning has ended"
        if self.phase == "tuning":
            self.ctx.stats["deletions-during-tuning"] += 1
            if by == "stop_trial":
                justified = t["decision"] == STOP
                why = "scheduler decided STOP" if justified else "no STOP decision of the scheduler for this trial"
                self.ctx.check(C_STOPDEC, justified, why=why, **details)
            else:
                self.ctx.check(C_RUNNING, state not in ("running", "new"), **details)
                if state in ("running", "new"):
                    justified, why = False, "trial is running"
                elif state == "paused":
                    if self.sync is not None:
                        justified, why = self.sync.never_resumed(tid)
                    elif self.speculative:
                        justified, why = True, "speculative early removal was requested"
                    else:
                        justified, why = False, "this scheduler can resume every paused trial and no speculative removal was requested"
                    if existed:
                        self.ctx.check(C_PAUSED, justified, why=why, **details)
                else:
                    why = "trial was stopped or ended on its own"
        t["ckpt"] = False
        t["deleted"] = dict(step=self.seq, by="callback" if by == "callback" else by, state=state, justified=justified, why=why)

    # -- once per loop iteration (after all other callbacks) ------------------------------------------------------
    def on_loop_end(self):
        self.polls += 1
        if not self.delete_on:
            self.ctx.check(C_OFF, not self.off_deleted, deleted=self.off_deleted[:10], events=self.tail(), **self.where())
            return
        for tid, t in self.trials.items():
            if t["state"] == "paused" and t["trained"]:
                ok = bool(t["ckpt"]) or (t["deleted"] is not None and t["deleted"]["justified"])
                self.ctx.check(C_INV, ok, trial=tid, deleted=t["deleted"], events=self.tail(), **self.where())


# --------------------------------------------------------------------------------------------------------------
# library access (lazy, so that importing this module never needs the repository)
# --------------------------------------------------------------------------------------------------------------
def _env():
    global _ENV
    if _ENV is not None:
        return _ENV
    import sys
    from datetime import datetime
    from pathlib import Path
    from types import SimpleNamespace

    sys.modules.setdefault("yahpo_gym", None)

    from syne_tune import Tuner
    from syne_tune.backend.trial_backend import TrialBackend
    from syne_tune.backend.trial_status import Status, TrialResult
    from syne_tune.config_space import uniform
    from syne_tune.constants import ST_WORKER_TIME, ST_WORKER_TIMESTAMP
    from syne_tune.optimizer.scheduler import SchedulerDecision, TrialScheduler, TrialSuggestion
    from syne_tune.optimizer.schedulers.hyperband import HyperbandScheduler
    from syne_tune.optimizer.schedulers.pbt import PopulationBasedTraining
    from syne_tune.optimizer.schedulers.synchronous.dehb import DifferentialEvolutionHyperbandScheduler
    from syne_tune.optimizer.schedulers.synchronous.hyperband import SynchronousHyperbandScheduler
    from syne_tune.optimizer.schedulers.synchronous.hyperband_impl import (
        GeometricDifferentialEvolutionHyperbandScheduler,
        SynchronousGeometricHyperbandScheduler,
    )
    from syne_tune.tuner_callback import TunerCallback
    import syne_tune.callbacks.hyperband_remove_checkpoints_callback as spec_cb_mod

    class FakeTime:
        """deterministic stand-in for ``time`` inside the speculative-removal callback (scores depend on elapsed time)"""

        def __init__(self):
            self.now = 0.0

        def perf_counter(self):
            self.now += 0.25
            return self.now

        def time(self):
            return self.perf_counter()

    class CkptBackend(TrialBackend):
        """Scripted in-memory back end: only the abstract hooks are defined here."""

        def __init__(self, mon, spec, rs):
            super().__init__(delete_checkpoints=bool(spec["delete"]))
            self.mon = mon
            self.spec = spec
            self.rs = rs
            self.sim = {}
            self.ckpt = {}  # trial_id -> epoch held by the check-point (key absent: no check-point)
            self.stamp = 0
            self.poll = 0
            lrs = np.random.RandomState(spec["lseed"])
            self.table = lrs.rand(TABLE, spec["max_epochs"] + 2)
            self.nan_draw = lrs.rand(TABLE)
            self.fail_draw = lrs.rand(TABLE)
            self.fail_epoch = lrs.randint(1, spec["max_epochs"] + 1, size=TABLE)
            self.speed_draw = lrs.randint(1, 4, size=(TABLE, 64))

        # -- check-points ------------------------------------------------------------------------------------
        def copy_checkpoint(self, src_trial_id, tgt_trial_id):
            self.mon.on_copy(src_trial_id, tgt_trial_id)
            if src_trial_id in self.ckpt:
                self.ckpt[tgt_trial_id] = self.ckpt[src_trial_id]

        def delete_checkpoint(self, trial_id):
            self.mon.on_delete(trial_id)
            self.ckpt.pop(trial_id, None)

        # -- life cycle (library code, bracketed by ghost events) --------------------------------------------------
        def start_trial(self, config, checkpoint_trial_id=None):
            self.mon.begin_start(checkpoint_trial_id)
            try:
                return super().start_trial(config, checkpoint_trial_id=checkpoint_trial_id)
            finally:
                self.mon.end_start()

        def resume_trial(self, trial_id, new_config=None):
            self.mon.on_resume(trial_id)
            return super().resume_trial(trial_id, new_config=new_config)

        def stop_trial(self, trial_id, result=None):
            self.mon.in_stop = trial_id
            try:
                return super().stop_trial(trial_id, result=result)
            finally:
                self.mon.in_stop = None

        def stop_all(self):
            if self.mon.phase == "tuning":
                self.mon.phase = "ending"
            return super().stop_all()

        def _schedule(self, trial_id, config):
            is_new = trial_id not in self.sim
            if is_new:
                self.sim[trial_id] = dict(config=config, metrics=[], created=datetime.now(), runs=0)
            sim = self.sim[trial_id]
            sim["config"] = config
            sim["epoch"] = self.ckpt.get(trial_id, 0)
            sim["run_start"] = sim["epoch"]
            sim["running"] = True
            sim["status"] = Status.in_progress
            sim["runs"] += 1
            limit = self.spec["max_epochs"]
            if self.spec.get("max_resource_attr") and config.get(MAX_RES) is not None:
                limit = min(limit, int(config[MAX_RES]))
            if is_new:
                # a job warm-started from a check-point which already is at the script's last epoch trains one more epoch
                # (otherwise the new trial ends without any report, which the Tuner rejects)
                limit = max(limit, sim["epoch"] + 1)
            sim["limit"] = limit
            self.mon.on_schedule(trial_id, sim["epoch"], is_new)

        def _resume_trial(self, trial_id):
            pass

        def _pause_trial(self, trial_id, result):
            sim = self.sim[trial_id]
            sim["running"] = False
            sim["status"] = Status.paused
            # the worker is taken down at the decision: what it trained beyond the reported level is lost
            if result is not None and trial_id in self.ckpt:
                self.ckpt[trial_id] = min(self.ckpt[trial_id], int(result[RESOURCE]))
            self.mon.on_pause(trial_id)

        def _stop_trial(self, trial_id, result):
            sim = self.sim[trial_id]
            sim["running"] = False
            sim["status"] = Status.stopped
            self.mon.on_stop(trial_id)

        # -- workers -----------------------------------------------------------------------------------------
        def _loss(self, trial_id, config, epoch):
            row = trial_id % TABLE
            if self.nan_draw[row] < self.spec["nan_rate"]:
                return float("nan")
            mode = self.spec["loss"]
            if mode == "config":
                return float(config.get("x", 0.5)) + 1.0 / epoch
            if mode == "ties":
                return float(round(self.table[row][epoch % self.table.shape[1]] * 2.0) / 2.0)
            if mode == "constant":
                return 0.5
            if mode == "improving":
                return float(self.table[row][0] + 1.0 / epoch)
            if mode == "worsening":
                return float(self.table[row][0] + 0.1 * epoch * (1 + row % 3))
            return float(self.table[row][epoch % self.table.shape[1]])

        def _speed(self, trial_id):
            speed = self.spec["speed"]
            if speed == "random":
                return int(self.speed_draw[trial_id % TABLE][self.poll % 64])
            if speed == "mixed":
                return 1 + (trial_id + self.poll) % 3
            return int(speed)

        def _advance(self):
            self.poll += 1
            produced = []
            for trial_id in sorted(self.sim):
                sim = self.sim[trial_id]
                if not sim["running"]:
                    continue
                row = trial_id % TABLE
                for k in range(self._speed(trial_id)):
                    if sim["epoch"] >= sim["limit"]:
                        sim["running"] = False
                        sim["status"] = Status.completed
                        self.mon.on_ended(trial_id, "completed")
                        break
                    if self.fail_draw[row] < self.spec["fail_rate"] and sim["runs"] == 1 and sim["epoch"] + 1 == int(self.fail_epoch[row]) and (self.mon.sync is None or (self.spec["nan_rate"] == 0 and self.mon.sync.may_fail(trial_id))):
                        sim["running"] = False
                        sim["status"] = Status.failed
                        self.mon.on_ended(trial_id, "failed")
                        break
                    sim["epoch"] += 1
                    self.ckpt[trial_id] = sim["epoch"]
                    self.mon.on_write(trial_id, sim["epoch"])
                    produced.append((k, trial_id, sim["epoch"]))
                    if sim["epoch"] >= sim["limit"]:
                        sim["running"] = False
                        sim["status"] = Status.completed
                        self.mon.on_ended(trial_id, "completed")
                        break
            order = self.spec["order"]
            if order == "epoch-major":
                produced.sort(key=lambda x: (x[0], x[1]))
            elif order == "epoch-major-reversed":
                produced.sort(key=lambda x: (x[0], -x[1]))
            elif order == "trial-major":
                produced.sort(key=lambda x: (x[1], x[0]))
            elif order == "trial-major-reversed":
                produced.sort(key=lambda x: (-x[1], x[0]))
            else:
                # random interleaving of the trials, reports of one trial stay in order
                slots = [p[1] for p in produced]
                if isinstance(order, str) and order.startswith("interleaving-"):
                    # the same interleaving pattern in every poll (pattern number j); all patterns of a small batch are
                    # reached by running j = 0 .. 11
                    np.random.RandomState(int(order.split("-")[1])).shuffle(slots)
                else:
                    self.rs.shuffle(slots)
                per_trial = {}
                for p in produced:
                    per_trial.setdefault(p[1], []).append(p)
                produced = [per_trial[tid].pop(0) for tid in slots]
            for _, trial_id, epoch in produced:
                sim = self.sim[trial_id]
                self.stamp += 1
                sim["metrics"].append(
                    {
                        METRIC: self._loss(trial_id, sim["config"], epoch),
                        RESOURCE: epoch,
                        COST: float(epoch - sim["run_start"]) * (1.0 + (trial_id % 3)),
                        ST_WORKER_TIMESTAMP: float(self.stamp),
                        ST_WORKER_TIME: float(epoch - sim["run_start"]),
                    }
                )

        def fetch_status_results(self, trial_ids):
            self._advance()
            return super().fetch_status_results(trial_ids)

        def _all_trial_results(self, trial_ids):
            return [
                TrialResult(
                    trial_id=trial_id,
                    config=self.sim[trial_id]["config"],
                    creation_time=self.sim[trial_id]["created"],
                    metrics=list(self.sim[trial_id]["metrics"]),
                    status=self.sim[trial_id]["status"],
                )
                for trial_id in trial_ids
            ]

        def busy_trial_ids(self):
            return [(trial_id, Status.in_progress) for trial_id, sim in self.sim.items() if sim["running"]]

        def stdout(self, trial_id):
            return []

        def stderr(self, trial_id):
            return []

        def entrypoint_path(self):
            return Path("c20_native_script.py")

        def set_entrypoint(self, entry_point):
            pass

    class LoopEndCallback(TunerCallback):
        def __init__(self, mon):
            self.mon = mon

        def on_loop_end(self):
            self.mon.on_loop_end()

    class ScriptedScheduler(TrialScheduler):
        """Pauses / stops / continues at random; suggestions are new trials, resumes of paused trials and warm starts from
        trials it has not stopped.  It only ever asks for what the property allows it to rely on."""

        def __init__(self, config_space, rs, spec):
            super().__init__(config_space)
            self.rs = rs
            self.spec = spec
            self.paused = []
            self.sources = []  # trials which reported at least once and were not stopped by this scheduler
            self.stopped = set()
            self.last_epoch = {}

        def _suggest(self, trial_id):
            u = self.rs.rand()
            if self.paused and u < self.spec["p_resume"]:
                tid = self.paused.pop(int(self.rs.randint(len(self.paused))))
                return TrialSuggestion.resume_suggestion(trial_id=tid)
            sources = [t for t in self.sources if t not in self.stopped and self.last_epoch.get(t, 0) < self.spec["max_epochs"]]
            if sources and u > 1.0 - self.spec["p_warm"]:
                src = sources[int(self.rs.randint(len(sources)))]
                return TrialSuggestion.start_suggestion({"x": float(self.rs.rand())}, checkpoint_trial_id=src)
            return TrialSuggestion.start_suggestion({"x": float(self.rs.rand())})

        def on_trial_result(self, trial, result):
            tid = trial.trial_id
            if tid not in self.sources:
                self.sources.append(tid)
            self.last_epoch[tid] = int(result[RESOURCE])
            u = self.rs.rand()
            if u < self.spec["p_pause"]:
                self.paused.append(tid)
                return SchedulerDecision.PAUSE
            if u < self.spec["p_pause"] + self.spec["p_stop"]:
                self.stopped.add(tid)
                return SchedulerDecision.STOP
            return SchedulerDecision.CONTINUE

        def on_trial_error(self, trial):
            # a failed trial keeps whatever check-point it wrote; it is not resumed any more
            if trial.trial_id in self.paused:
                self.paused.remove(trial.trial_id)

        def metric_names(self):
            return [METRIC]

        def metric_mode(self):
            return "min"

    _ENV = SimpleNamespace(
        Tuner=Tuner,
        Status=Status,
        uniform=uniform,
        SchedulerDecision=SchedulerDecision,
        HyperbandScheduler=HyperbandScheduler,
        PopulationBasedTraining=PopulationBasedTraining,
        DifferentialEvolutionHyperbandScheduler=DifferentialEvolutionHyperbandScheduler,
        GeometricDifferentialEvolutionHyperbandScheduler=GeometricDifferentialEvolutionHyperbandScheduler,
        SynchronousHyperbandScheduler=SynchronousHyperbandScheduler,
        SynchronousGeometricHyperbandScheduler=SynchronousGeometricHyperbandScheduler,
        CkptBackend=CkptBackend,
        LoopEndCallback=LoopEndCallback,
        ScriptedScheduler=ScriptedScheduler,
        FakeTime=FakeTime,
        spec_cb_mod=spec_cb_mod,
    )
    return _ENV


# --------------------------------------------------------------------------------------------------------------
# building the scheduler of a scenario, observers
# --------------------------------------------------------------------------------------------------------------
def _config_space(E, spec):
    cs = {"x": E.uniform(0.0, 1.0)}
    if spec.get("max_resource_attr"):
        cs[MAX_RES] = spec["max_t"]
    return cs


def _tuples(rungs):
    return [[tuple(r) for r in bracket] for bracket in rungs]


def _make_scheduler(E, spec, rs):
    fam = spec["family"]
    kw = dict(spec.get("sched", {}))
    cs = _config_space(E, spec)
    common = dict(metric=METRIC, mode=spec.get("mode", "min"), resource_attr=RESOURCE, random_seed=spec["sseed"])
    if spec.get("max_resource_attr"):
        common["max_resource_attr"] = MAX_RES
    if fam == "sync-hyperband":
        return E.SynchronousHyperbandScheduler(cs, bracket_rungs=_tuples(kw["bracket_rungs"]), max_resource_level=spec["max_t"], searcher="random", search_options={"debug_log": False}, **common)
    if fam == "sync-hyperband-geometric":
        return E.SynchronousGeometricHyperbandScheduler(cs, max_resource_level=spec["max_t"], searcher="random", search_options={"debug_log": False}, **dict(common, **kw))
    if fam == "dehb":
        return E.DifferentialEvolutionHyperbandScheduler(
            cs, rungs_first_bracket=[tuple(r) for r in kw["rungs_first_bracket"]], num_brackets_per_iteration=kw.get("num_brackets_per_iteration"),
            max_resource_level=spec["max_t"], support_pause_resume=kw["support_pause_resume"], searcher=kw.get("searcher", "random_encoded"), search_options={"debug_log": False}, **common
        )
    if fam == "dehb-geometric":
        return E.GeometricDifferentialEvolutionHyperbandScheduler(
            cs, max_resource_level=spec["max_t"], support_pause_resume=kw["support_pause_resume"], grace_period=kw["grace_period"], reduction_factor=kw["reduction_factor"],
            brackets=kw.get("brackets"), search_options={"debug_log": False}, **common
        )
    if fam == "hyperband":
        args = dict(common, max_t=spec["max_t"], searcher="random", search_options={"debug_log": False})
        args.update({k: v for k, v in kw.items() if k != "early_checkpoint_removal_kwargs"})
        if kw.get("early_checkpoint_removal_kwargs") is not None:
            args["early_checkpoint_removal_kwargs"] = dict(kw["early_checkpoint_removal_kwargs"])
        return E.HyperbandScheduler(cs, **args)
    if fam == "pbt":
        return E.PopulationBasedTraining(cs, max_t=spec["max_t"], search_options={"debug_log": False}, **dict(common, **kw))
    if fam == "scripted":
        return E.ScriptedScheduler(cs, rs, spec)
    raise ValueError(fam)


def _observe(E, spec, mon, sched, backend):
    """wrap the scheduler's interface methods on the instance: decisions, failures, suggestions are seen by the ghost state"""
    fam = spec["family"]
    orig_result, orig_error, orig_suggest = sched.on_trial_result, sched.on_trial_error, sched.suggest
    stack_name = "_trial_decisions_stack"

    def on_trial_result(trial, result):
        before = len(getattr(sched, stack_name)) if fam == "pbt" and hasattr(sched, stack_name) else None
        res_view = dict(result)
        decision = orig_result(trial=trial, result=result)
        mon.on_decision(trial.trial_id, res_view, decision)
        if before is not None:
            stack = getattr(sched, stack_name)
            if len(stack) == before + 1:
                mon.on_clone_decision(trial.trial_id, int(stack[-1][0]))
            elif len(stack) != before:
                mon.pbt_mirror_ok = False
        return decision

    def on_trial_error(trial):
        mon.on_error(trial.trial_id)
        return orig_error(trial)

    jobs = []
    if fam in ("sync-hyperband", "sync-hyperband-geometric"):
        mon.sync = SyncRungModel(sched.bracket_manager.bracket_rungs, spec.get("mode", "min"))
        orig_next_job = sched.bracket_manager.next_job

        def next_job():
            bracket_id, slot = orig_next_job()
            jobs.append((bracket_id, int(slot.rung_index), slot.trial_id))
            return bracket_id, slot

        sched.bracket_manager.next_job = next_job

    def suggest(trial_id):
        del jobs[:]
        suggestion = orig_suggest(trial_id=trial_id)
        mon.on_suggestion(suggestion)
        if mon.sync is not None:
            for bracket_id, rung_index, slot_trial in jobs:
                if suggestion is None:
                    mon.sync.assign(bracket_id, rung_index, None)
                elif suggestion.spawn_new_trial_id:
                    mon.sync.assign(bracket_id, rung_index, trial_id)
                else:
                    mon.sync.assign(bracket_id, rung_index, suggestion.checkpoint_trial_id)
        return suggestion

    sched.on_trial_result = on_trial_result
    sched.on_trial_error = on_trial_error
    sched.suggest = suggest


# --------------------------------------------------------------------------------------------------------------
# running one scenario
# --------------------------------------------------------------------------------------------------------------
_COUNTER = [0]


class _StopAfter:
    def __init__(self, mon, max_polls, max_trials):
        self.mon, self.max_polls, self.max_trials = mon, max_polls, max_trials

    def __call__(self, status):
        return self.mon.polls >= self.max_polls or status.num_trials_started >= self.max_trials


def run_scenario(E, ctx, spec):
    ctx.begin(spec)
    _COUNTER[0] += 1
    rs = np.random.RandomState(spec["rseed"])
    mon = Mon(ctx, spec)
    backend = E.CkptBackend(mon, spec, rs)
    err = None
    tuner = None
    fake = E.FakeTime()
    old_time = E.spec_cb_mod.time
    E.spec_cb_mod.time = fake
    try:
        with contextlib.redirect_stdout(io.StringIO()):
            try:
                sched = _make_scheduler(E, spec, rs)
                _observe(E, spec, mon, sched, backend)
                tuner = E.Tuner(
                    trial_backend=backend,
                    scheduler=sched,
                    stop_criterion=_StopAfter(mon, spec["max_polls"], spec["max_trials"]),
                    n_workers=spec["n_workers"],
                    sleep_time=0,
                    callbacks=[],
                    save_tuner=False,
                    tuner_name="c20n-%d-%d" % (os.getpid(), _COUNTER[0]),
                    suffix_tuner_name=False,
                    print_update_interval=1e9,
                    results_update_interval=1e9,
                    max_failures=10**6,
                )
                # appended last: the ghost state is examined after the removal call-backs of this loop iteration ran
                tuner.callbacks.append(E.LoopEndCallback(mon))
                tuner.run()
            except Exception as exc:
                err = "%s: %s | %s" % (type(exc).__name__, exc, traceback.format_exc()[-1500:])
        mon.phase = "after"
        rem = spec.get("sched", {}).get("early_checkpoint_removal_kwargs") if isinstance(spec.get("sched"), dict) else None
        score_based = mon.speculative and rem is not None and "baseline" not in rem
        in_score_code = err is not None and "hyperband_remove_checkpoints_callback.py" in err and "_trials_to_be_removed" in err
        if score_based:
            # not part of C20, but a crash there ends the scenario early: kept under its own name, never silently dropped
            ctx.check(C_SPEC_CRASH, not in_score_code, exception=err, events=mon.tail(), **mon.where())
        if not (score_based and in_score_code):
            ctx.check(C_TERM, err is None, exception=err, events=mon.tail(), **mon.where())
        if not mon.delete_on and err is None:
            ctx.check(C_OFF_END, not any(t["deleted"] is not None for t in mon.trials.values()), deleted=[tid for tid, t in mon.trials.items() if t["deleted"] is not None][:10], events=mon.tail())
            # what Tuner.best_config advertises: start_trial(config, checkpoint_trial_id=...) after tuning
            trained = [tid for tid, t in sorted(mon.trials.items()) if t["trained"]]
            picks = sorted(set(trained[:1] + trained[-1:] + ([trained[len(trained) // 2]] if trained else [])))
            for tid in picks:
                with contextlib.redirect_stdout(io.StringIO()):
                    backend.start_trial(config=dict(backend.sim[tid]["config"]), checkpoint_trial_id=tid)
    finally:
        E.spec_cb_mod.time = old_time
        if tuner is not None:
            shutil.rmtree(tuner.tuner_path, ignore_errors=True)
    return mon


# --------------------------------------------------------------------------------------------------------------
# the catalogue
# --------------------------------------------------------------------------------------------------------------
SYNC_RUNGS = [
    [[(3, 1), (1, 3)]],
    [[(3, 1), (2, 2), (1, 4)]],
    [[(4, 1), (2, 3), (1, 9)]],
    [[(4, 1), (2, 3), (1, 9)], [(2, 3), (1, 9)]],
    [[(9, 1), (3, 3), (1, 9)], [(5, 3), (2, 9)], [(3, 9)]],
    [[(5, 2), (3, 4), (2, 6), (1, 8)]],
]
DEHB_RUNGS = [
    [(4, 1), (2, 3), (1, 9)],
    [(3, 1), (1, 3)],
    [(9, 1), (3, 3), (1, 9)],
    [(5, 2), (3, 4), (2, 6), (1, 8)],
]
LOSSES = ("config", "random", "ties", "improving", "worsening", "constant")
SPEEDS = (1, 2, 3, "mixed", "random")


def _base(family, i, seed, **kw):
    spec = dict(
        family=family, n_workers=1, delete=True, order=ORDERS[i % len(ORDERS)], speed=SPEEDS[i % len(SPEEDS)], loss=LOSSES[i % len(LOSSES)], nan_rate=0.0, fail_rate=0.0,
        max_epochs=9, max_t=9, max_polls=40, max_trials=30, mode="min", max_resource_attr=False, lseed=1000 * seed + i, sseed=(17 * seed + i) % 2**31, rseed=7919 * seed + i,
    )
    spec.update(kw)
    return spec


def _no_ties_for_pasha(specs):
    """scenario design: PASHA's epsilon estimate iterates over a set of trial-id strings, so with tied metric values its
    decisions depend on PYTHONHASHSEED; tied values are kept away from PASHA to keep the monitor deterministic"""
    for spec in specs:
        if spec["family"] == "hyperband" and spec["sched"].get("type") == "pasha" and spec["loss"] in ("ties", "constant"):
            spec["loss"] = "random"
    return specs


def _rot(options, i, stride=1):
    return options[(i // stride) % len(options)]


def sync_catalogue(seed, thorough):
    specs = []
    i = 0
    for ri, rungs in enumerate(SYNC_RUNGS):
        top = max(l for b in rungs for _, l in b)
        size0 = rungs[0][0][0]
        for n_workers in (1, 2, 4):
            for delete in (True, False):
                for variant in range(8 if thorough else 3):
                    i += 1
                    k = i + seed
                    nan_rate = (0.0, 0.3, 0.7, 0.0)[k % 4]
                    fail_rate = (0.0, 0.0, 0.3, 0.5)[(k // 2) % 4]
                    mra = bool((k // 3) % 2)
                    specs.append(
                        _base(
                            "sync-hyperband", k, seed, sched={"bracket_rungs": rungs}, n_workers=n_workers, delete=delete, max_t=top, max_epochs=top if (mra or k % 5 == 0) else top + 2,
                            nan_rate=nan_rate, fail_rate=fail_rate, max_resource_attr=mra, mode=("min", "max")[(k // 7) % 2], max_polls=14 + 6 * size0 // n_workers + 3 * top,
                            max_trials=10 * size0, speed=_rot(SPEEDS, k) if not mra else _rot((1, 2, "mixed"), k),
                        )
                    )
    # rungs with too few valid results, directed: all but one / all trials of the first rung report NaN or fail
    for ri, rungs in enumerate(SYNC_RUNGS[:4]):
        top = max(l for b in rungs for _, l in b)
        for n_workers in (1, 2, 4):
            for nan_rate, fail_rate in ((0.85, 0.0), (1.0, 0.0), (0.5, 0.5), (0.0, 0.9)):
                i += 1
                k = i + seed
                specs.append(
                    _base("sync-hyperband", k, seed, sched={"bracket_rungs": rungs}, n_workers=n_workers, delete=True, max_t=top, max_epochs=top + 1, nan_rate=nan_rate, fail_rate=fail_rate,
                          max_polls=30 + 3 * top, max_trials=12 * rungs[0][0][0], note="too-few-valid-results")
                )
    # every interleaving pattern of the results of one poll (workers report twice per poll, no max_resource_attr: the report
    # at the rung level is followed by one more of the same trial in the same batch)
    for rungs, n_workers, j in itertools.product(SYNC_RUNGS[:4], (2, 4), range(12 if thorough else 4)):
        i += 1
        k = i + seed
        top = max(l for b in rungs for _, l in b)
        specs.append(_base("sync-hyperband", k, seed, sched={"bracket_rungs": rungs}, n_workers=n_workers, delete=True, max_t=top, max_epochs=top + 2, speed=2, order="interleaving-%d" % ((j + seed) % 12),
                           nan_rate=(0.0, 0.5)[k % 2], max_polls=40, max_trials=12 * rungs[0][0][0], note="interleavings"))
    geo = [dict(grace_period=1, reduction_factor=3), dict(grace_period=1, reduction_factor=2, brackets=2), dict(grace_period=2, reduction_factor=2, brackets=1), dict(grace_period=1, reduction_factor=3, brackets=3)]
    for gi, g in enumerate(geo):
        for n_workers in (1, 2, 4):
            for delete in (True, False):
                i += 1
                k = i + seed
                max_t = (9, 8, 8, 27)[gi]
                specs.append(
                    _base("sync-hyperband-geometric", k, seed, sched=g, n_workers=n_workers, delete=delete, max_t=max_t, max_epochs=max_t + (k % 2), nan_rate=(0.0, 0.4)[k % 2],
                          fail_rate=(0.0, 0.2)[(k // 2) % 2], max_polls=50 if max_t < 20 else 70, max_trials=60)
                )
    return specs


def dehb_catalogue(seed, thorough):
    specs = []
    i = 0
    for ri, rungs in enumerate(DEHB_RUNGS):
        top = rungs[-1][1]
        for spr in (True, False):
            for n_workers in (1, 2, 4):
                for delete in (True, False):
                    for variant in range(5 if thorough else 2):
                        i += 1
                        k = i + seed
                        mra = bool((k // 2) % 2)
                        specs.append(
                            _base("dehb", k, seed, sched={"rungs_first_bracket": rungs, "support_pause_resume": spr, "num_brackets_per_iteration": None,
                                                         "searcher": ("random_encoded", "random")[(k // 3) % 2]},
                                  n_workers=n_workers, delete=delete, max_t=top, max_epochs=top if mra else top + 1 + k % 2, max_resource_attr=mra, nan_rate=(0.0, 0.0, 0.3)[k % 3],
                                  max_polls=30 + 4 * top, max_trials=8 * rungs[0][0], mode=("min", "max")[(k // 5) % 2], speed=_rot(SPEEDS, k) if not mra else 1)
                        )
    for rungs, spr, n_workers, j in itertools.product(DEHB_RUNGS[:2], (True, False), (2, 4), range(12 if thorough else 3)):
        i += 1
        k = i + seed
        top = rungs[-1][1]
        specs.append(_base("dehb", k, seed, sched={"rungs_first_bracket": rungs, "support_pause_resume": spr, "num_brackets_per_iteration": None, "searcher": "random_encoded"}, n_workers=n_workers, delete=True,
                           max_t=top, max_epochs=top + 2, speed=2, order="interleaving-%d" % ((j + seed) % 12), max_polls=40, max_trials=8 * rungs[0][0], note="interleavings"))
    for gi, g in enumerate([dict(grace_period=1, reduction_factor=3), dict(grace_period=1, reduction_factor=2)]):
        for spr in (True, False):
            for n_workers in (1, 2, 4):
                i += 1
                k = i + seed
                max_t = (9, 8)[gi]
                specs.append(_base("dehb-geometric", k, seed, sched=dict(g, support_pause_resume=spr), n_workers=n_workers, delete=bool(k % 3), max_t=max_t, max_epochs=max_t + 1, max_polls=60, max_trials=50))
    return specs


def _safe_removal(rem, typ, n_workers):
    """scenario design: the score-based speculative call-back raises (outside C20) when no paused trial with a check-point
    is left to choose from (ValueError in _prepare_score_inputs: more running trials than max_num_checkpoints) and when every
    candidate is promotable right away (ValueError in compute_probabilities_of_getting_resumed, seen with PASHA's resource
    cap and RUSH's thresholds); both are kept out of the catalogue, the base-line call-backs have no such restriction"""
    rem = dict(rem)
    if "baseline" not in rem:
        if typ in ("pasha", "rush_promotion"):
            rem["baseline"] = "by_level"
            rem.pop("approx_steps", None)
        else:
            rem["max_num_checkpoints"] = max(rem["max_num_checkpoints"], n_workers)
    return rem


def hyperband_catalogue(seed, thorough):
    specs = []
    i = 0
    types = [
        ("promotion", {}),
        ("pasha", {}),
        ("rush_promotion", {"rung_system_kwargs": {"num_threshold_candidates": 2}, "points_to_evaluate": [{"x": 0.2}, {"x": 0.7}]}),
        ("cost_promotion", {"cost_attr": COST}),
    ]
    removal = [
        None,
        dict(max_num_checkpoints=2, max_wallclock_time=3600),
        dict(max_num_checkpoints=3, max_wallclock_time=3600, baseline="by_level"),
        dict(max_num_checkpoints=1, max_wallclock_time=3600, baseline="random"),
        dict(max_num_checkpoints=4, max_wallclock_time=600, approx_steps=6),
    ]
    cells = itertools.product(types, (1, 2, 4), (True, False), removal, range(3 if thorough else 1))
    for (typ, extra), n_workers, delete, rem, variant in cells:
        i += 1
        k = i + seed
        shape = k % 4
        if typ == "pasha" and shape == 3:
            shape = 0  # PASHA with several brackets raises IndexError (finding F14)
        sched = dict(type=typ, **extra)
        if shape == 0:
            sched.update(grace_period=1, reduction_factor=3)
            max_t = 9
        elif shape == 1:
            sched.update(grace_period=1, reduction_factor=2)
            max_t = 8
        elif shape == 2:
            sched.update(rung_levels=[1, 2, 4, 6])
            max_t = 8
        else:
            sched.update(grace_period=1, reduction_factor=3, brackets=2, rung_system_per_bracket=bool((k // 4) % 2))
            max_t = 9
        if rem is not None:
            sched["early_checkpoint_removal_kwargs"] = _safe_removal(rem, typ, n_workers)
        mra = bool((k // 2) % 2)
        specs.append(
            _base("hyperband", k, seed, sched=sched, n_workers=n_workers, delete=delete, speculative=rem is not None, max_t=max_t, max_epochs=max_t if mra else max_t + k % 3, max_resource_attr=mra,
                  fail_rate=(0.0, 0.0, 0.25)[k % 3], max_polls=45, max_trials=24, mode=("min", "max")[(k // 5) % 2], speed=_rot(SPEEDS, k) if not mra else _rot((1, 2), k))
        )
    # every interleaving pattern of the results of one poll (workers report twice per poll, no max_resource_attr: the report
    # at the rung level is followed by one more of the same trial in the same batch)
    for (typ, extra), n_workers, rem, j in itertools.product(types[:2], (2, 4), (None, removal[2]), range(12 if thorough else 4)):
        i += 1
        k = i + seed
        sched = dict(type=typ, grace_period=1, reduction_factor=3, **extra)
        if rem is not None:
            sched["early_checkpoint_removal_kwargs"] = _safe_removal(rem, typ, n_workers)
        specs.append(_base("hyperband", k, seed, sched=sched, n_workers=n_workers, delete=True, speculative=rem is not None, max_t=9, max_epochs=10, speed=2, order="interleaving-%d" % ((j + seed) % 12),
                           max_polls=40, max_trials=24, note="interleavings"))
    return specs


def pbt_catalogue(seed, thorough):
    specs = []
    i = 0
    cells = itertools.product((2, 3, 4), (1, 2, 4), (True, False), ((1, 4), (2, 6), (1, 8), (3, 7)), range(3 if thorough else 1))
    for pop, n_workers, delete, (interval, max_t), variant in cells:
        i += 1
        k = i + seed
        specs.append(
            _base("pbt", k, seed, sched=dict(population_size=pop, perturbation_interval=interval, quantile_fraction=(0.25, 0.5, 0.34)[k % 3], resample_probability=0.25),
                  n_workers=n_workers, delete=delete, max_t=max_t, max_epochs=max_t + (0, 1, 3)[k % 3], speed=1 if k % 2 else _rot(SPEEDS, k), nan_rate=(0.0, 0.0, 0.0, 0.2)[k % 4],
                  fail_rate=(0.0, 0.2)[(k // 4) % 2], max_polls=40, max_trials=24, mode=("min", "max")[(k // 3) % 2])
        )
    # directed: two trials, both report twice per poll, the second one of the batch decides at epoch 1, the first one
    # reaches max_t = 2 right after it in the same batch (finding F8 on the unchanged tree for one of the two orders)
    for order in ("epoch-major", "epoch-major-reversed"):
        for delete in (True, False):
            i += 1
            specs.append(
                _base("pbt", i + seed, seed, sched=dict(population_size=2, perturbation_interval=1, quantile_fraction=0.5, resample_probability=0.25), n_workers=2, delete=delete, max_t=2, max_epochs=4,
                      speed=2, order=order, loss="config", max_polls=6, max_trials=8, note="source-reaches-max_t-right-after-the-clone-decision")
            )
    # every interleaving pattern of the results of one poll
    for pop, n_workers, j in itertools.product((2, 4), (2, 4), range(12 if thorough else 4)):
        i += 1
        k = i + seed
        specs.append(_base("pbt", k, seed, sched=dict(population_size=pop, perturbation_interval=1, quantile_fraction=0.5, resample_probability=0.25), n_workers=n_workers, delete=True, max_t=6, max_epochs=8,
                           speed=2, order="interleaving-%d" % ((j + seed) % 12), max_polls=30, max_trials=24, note="interleavings"))
    return specs


def scripted_catalogue(seed, thorough):
    specs = []
    i = 0
    for n_workers in (1, 2, 4):
        for delete in (True, False):
            for p_pause, p_stop, p_resume, p_warm in ((0.3, 0.1, 0.6, 0.3), (0.5, 0.0, 0.9, 0.1), (0.1, 0.3, 0.5, 0.5), (0.25, 0.25, 0.3, 0.6)):
                for variant in range(8 if thorough else 3):
                    i += 1
                    k = i + seed
                    specs.append(_base("scripted", k, seed, n_workers=n_workers, delete=delete, p_pause=p_pause, p_stop=p_stop, p_resume=p_resume, p_warm=p_warm, max_epochs=4 + k % 4, max_t=9,
                                       fail_rate=(0.0, 0.2)[k % 2], max_polls=25, max_trials=30))
    return specs


def random_specs(rs, n, seed):
    """seed-dependent random scenarios over the same families"""
    out = []
    for j in range(n):
        fam = ("sync-hyperband", "hyperband", "pbt", "dehb", "scripted", "sync-hyperband")[j % 6]
        k = int(rs.randint(10**6))
        common = dict(n_workers=int(rs.choice([1, 2, 3, 4])), delete=bool(rs.rand() < 0.7), order=ORDERS[int(rs.randint(len(ORDERS)))], speed=SPEEDS[int(rs.randint(len(SPEEDS)))],
                      loss=LOSSES[int(rs.randint(len(LOSSES)))], mode=("min", "max")[int(rs.randint(2))], note="random")
        if fam == "sync-hyperband":
            rungs = SYNC_RUNGS[int(rs.randint(len(SYNC_RUNGS)))]
            top = max(l for b in rungs for _, l in b)
            mra = bool(rs.rand() < 0.4)
            out.append(_base(fam, k, seed, sched={"bracket_rungs": rungs}, max_t=top, max_epochs=top if mra else top + int(rs.randint(3)), max_resource_attr=mra, nan_rate=float(rs.choice([0.0, 0.2, 0.5, 0.8])),
                             fail_rate=float(rs.choice([0.0, 0.0, 0.3])), max_polls=60, max_trials=12 * rungs[0][0][0], **dict(common, speed=common["speed"] if not mra else 1)))
        elif fam == "hyperband":
            typ = ("promotion", "pasha", "cost_promotion", "promotion")[int(rs.randint(4))]
            sched = dict(type=typ, grace_period=1, reduction_factor=int(rs.choice([2, 3])))
            if typ == "cost_promotion":
                sched["cost_attr"] = COST
            rem = None
            if rs.rand() < 0.6:
                rem = dict(max_num_checkpoints=int(rs.randint(1, 5)), max_wallclock_time=3600)
                if rs.rand() < 0.5:
                    rem["baseline"] = ("by_level", "random")[int(rs.randint(2))]
                rem = _safe_removal(rem, typ, common["n_workers"])
                sched["early_checkpoint_removal_kwargs"] = rem
            mra = bool(rs.rand() < 0.4)
            max_t = int(rs.choice([8, 9]))
            out.append(_base(fam, k, seed, sched=sched, speculative=rem is not None, max_t=max_t, max_epochs=max_t if mra else max_t + int(rs.randint(3)), max_resource_attr=mra,
                             fail_rate=float(rs.choice([0.0, 0.2])), max_polls=45, max_trials=24, **dict(common, speed=common["speed"] if not mra else 1)))
        elif fam == "pbt":
            max_t = int(rs.randint(2, 9))
            out.append(_base(fam, k, seed, sched=dict(population_size=int(rs.randint(2, 5)), perturbation_interval=int(rs.randint(1, 4)), quantile_fraction=float(rs.choice([0.25, 0.5])), resample_probability=0.25),
                             max_t=max_t, max_epochs=max_t + int(rs.randint(3)), max_polls=40, max_trials=24, fail_rate=float(rs.choice([0.0, 0.2])), **common))
        elif fam == "dehb":
            rungs = DEHB_RUNGS[int(rs.randint(len(DEHB_RUNGS)))]
            top = rungs[-1][1]
            out.append(_base(fam, k, seed, sched={"rungs_first_bracket": rungs, "support_pause_resume": bool(rs.rand() < 0.5), "num_brackets_per_iteration": None, "searcher": "random_encoded"}, max_t=top,
                             max_epochs=top + int(rs.randint(1, 3)), max_polls=60, max_trials=8 * rungs[0][0], **common))
        else:
            out.append(_base(fam, k, seed, p_pause=float(rs.rand() * 0.5), p_stop=float(rs.rand() * 0.3), p_resume=float(rs.rand()), p_warm=float(rs.rand() * 0.6), max_epochs=int(rs.randint(3, 9)), max_t=9,
                             fail_rate=float(rs.choice([0.0, 0.2])), max_polls=25, max_trials=30, **common))
    return out


# --------------------------------------------------------------------------------------------------------------
# entry point
# --------------------------------------------------------------------------------------------------------------
def monitor_checkpoints(tier="quick", seed=0):
    E = _env()
    thorough = tier != "quick"
    rs = np.random.RandomState(seed)
    ctx = Ctx(seed, tier)
    tmp_base = [d for d in ("/dev/shm", "/var/tmp") if os.path.isdir(d) and os.access(d, os.W_OK)]
    tmp_root = tempfile.mkdtemp(prefix="c20_native_", dir=tmp_base[0] if tmp_base else None)
    old_env = os.environ.get("SYNETUNE_FOLDER")
    os.environ["SYNETUNE_FOLDER"] = tmp_root
    np_state = np.random.get_state()
    old_disable = logging.root.manager.disable
    logging.disable(logging.CRITICAL)
    n = {}
    try:
        catalogue = []
        for name, fn in (("sync", sync_catalogue), ("dehb", dehb_catalogue), ("hyperband", hyperband_catalogue), ("pbt", pbt_catalogue), ("scripted", scripted_catalogue)):
            part = fn(seed, thorough)
            n[name] = len(part)
            catalogue.extend(part)
        rnd = random_specs(rs, 1500 if thorough else 240, seed)
        n["random"] = len(rnd)
        catalogue.extend(rnd)
        _no_ties_for_pasha(catalogue)
        for spec in catalogue:
            run_scenario(E, ctx, spec)
    finally:
        np.random.set_state(np_state)
        logging.disable(old_disable)
        if old_env is None:
            os.environ.pop("SYNETUNE_FOLDER", None)
        else:
            os.environ["SYNETUNE_FOLDER"] = old_env
        shutil.rmtree(tmp_root, ignore_errors=True)
    empty = [c for c in CLAUSES if ctx.counts[c] == 0]
    missing = [key for key in ("resumes", "warm-starts", "deletions-during-tuning", "pauses", "stops") if ctx.stats[key] == 0]
    if (empty or missing) and not ctx.violations:
        # with violations the run is not green anyway and they are more useful than this error
        raise RuntimeError("clauses never exercised (an empty check must not look green): %s; events the catalogue never produced: %s" % (empty, missing))
    summary = (
        "real Tuner.run over a scripted in-memory TrialBackend (workers train 1..3 epochs per poll; results inside a poll in 5 orders + 12 fixed interleaving patterns; trials crash / report NaN with rate 0..1), "
        "n_workers 1,2,4 (random part: 1..4), delete_checkpoints on/off, max_resource_attr on/off, mode min/max; schedulers: SynchronousHyperbandScheduler (6 rung systems: <= 3 bracket offsets, <= 9 slots, <= 4 rungs, "
        "levels <= 9; geometric: 4 settings, levels <= 27), DEHB (4 rung systems + 2 geometric, support_pause_resume on/off, searcher random_encoded/random), HyperbandScheduler promotion / pasha / rush_promotion / "
        "cost_promotion (4 rung-level shapes, <= 2 brackets) x early_checkpoint_removal_kwargs none / score-based / by_level / random with max_num_checkpoints 1..4, PopulationBasedTraining (population 2..4, interval 1..3, "
        "max_t 2..8, quantile 0.25/0.34/0.5), scripted pause/stop/resume/warm-start scheduler; <= 70 polls and <= 108 trials per run; after tuning with deletion off: warm start from 3 trials; not covered: type='dyhpo', "
        "asynchronous_scheduling=False, start_jobs_without_delay=False (F9), wait_trial_completion_when_stopping, files of LocalBackend, crashing workers under DEHB (F17-F20); scenarios: %s; events: %s; "
        "checks per clause: %s; violations per clause: %s%s"
        % (json.dumps(n, sort_keys=True), json.dumps(ctx.stats, sort_keys=True), json.dumps(ctx.counts, sort_keys=True), json.dumps(ctx.total_violations, sort_keys=True),
           ("; NEVER EXERCISED: %s %s" % (empty, missing)) if (empty or missing) else "")
    )
    # C_SPEC_CRASH (the score-based removal call-back raising and ending the loop) is a defect of the library, but C20 speaks
    # about check-points existing when needed, not about that call-back staying alive: it is evaluated and reported in the
    # summary, not part of the verdict (demanding it would be demanding more than the property states)
    return {
        "evaluations": ctx.evaluations,
        "distinct": len(ctx.scenarios),
        "clauses": [c for c in CLAUSES if c != C_SPEC_CRASH],
        "violations": [v for v in ctx.violations if v["clause"] != C_SPEC_CRASH],
        "samples": ctx.samples[:4],
        "summary": summary + "; informational (outside the property, not part of the verdict): %s violated %d times" % (C_SPEC_CRASH, sum(1 for v in ctx.violations if v["clause"] == C_SPEC_CRASH)),
    }
