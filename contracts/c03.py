"""C03 -- stopping-type asynchronous Hyperband decides by the quantile rule."""
from pyvc.spec import *
from contracts.hb import *

EXPLANATION = (
    "Rung.quantile is proved equal to numpy's linear quantile for rungs of any length; "
    "the stop/continue decision of StoppingRungSystem.on_task_report is proved against the documented rule "
    "(own value inserted first, tie latitude) for rung contents of any length and 0..3 rung levels per system."
)
ASSUMPTIONS = [
    "A-REAL: floats are mathematical reals",
    "metric / resource attribute names are fixed distinct literals ('loss', 'epoch'); the code is parametric in them",
    "number of rungs per rung system is concrete (0..3) in the proof units of on_task_report; rung contents are unbounded",
]


@contract(HB_STOP + ":Rung.quantile", props=("C03", "C04", "C15"))
class Rung_quantile:
    params = dict(self=Obj("Rung"))

    def requires(s):
        return True

    def ensures(old, s, result):
        n = len(old.self.data)
        if n < 2:
            return {"none-below-2": result is None, "frame": unchanged(s.self, old.self)}
        return {
            "some": result is not None,
            "value==np.quantile": req(result, np_quantile_linear(old.self)),
            "frame": unchanged(s.self, old.self),
        }


@contract(HB_STOP + ":Rung.add", props=("C03", "C04"))
class Rung_add:
    params = dict(self=Obj("Rung"), entry=Obj("RungEntry"))

    def requires(s):
        return {"fresh-id": s.entry.trial_id not in s.self}

    def ensures(old, s, result):
        return {
            "inserted": inserted(s.self, old.self, old.entry.trial_id, old.entry.metric_val),
            "member": old.entry.trial_id in s.self,
            "len": len(s.self) == len(old.self) + 1,
        }


@contract(HB_STOP + ":Rung.pop", props=("C03", "C04"))
class Rung_pop:
    params = dict(self=Obj("Rung"), pos=Int)

    def requires(s):
        return {"in-range": 0 <= s.pos and s.pos < len(s.self.data)}

    def ensures(old, s, result):
        n = len(old.self.data)
        return {
            "returns-entry": same_entry(result, old.self.data[old.pos]),
            "len": len(s.self.data) == n - 1,
            "before": forall(range(0, n - 1), lambda i: same_entry(s.self.data[i], old.self.data[i]) if i < old.pos else True),
            "after": forall(range(0, n - 1), lambda i: same_entry(s.self.data[i], old.self.data[i + 1]) if i >= old.pos else True),
            "not-member": result.trial_id not in s.self,
        }


@contract(HB_STOP + ":StoppingRungSystem._task_continues", props=("C03", "C15"))
class Stopping_task_continues:
    params = dict(self=Obj("StoppingRungSystem"), trial_id=Str, metric_val=Real, rung=Obj("Rung"))
    proof_shapes = [{"self._rungs": 0}]
    shapes = [{"self._rungs": 0, "*": k} for k in range(0, 4)]

    def requires(s):
        return {"mode": s.rung._is_min == (s.self._mode == "min")}

    def ensures(old, s, result):
        return {"rule": stop_rule(old.rung, old.metric_val, result), "frame": unchanged(s.rung, old.rung)}


def _find_level(rungs, resource):
    """index of the rung whose level equals ``resource`` (concrete list), else None"""
    for j in range(len(rungs)):
        if rungs[j].level == resource:
            return j
    return None


@contract(HB_STOP + ":StoppingRungSystem.on_task_report", props=("C03",))
class Stopping_on_task_report:
    params = dict(self=Obj("StoppingRungSystem"), trial_id=Str, result=Rec(epoch=Int, loss=Real), skip_rungs=Int)
    proof_shapes = [{"self._rungs": k} for k in range(0, 4)]
    shapes = [{"self._rungs": k, "*": n} for k in range(0, 4) for n in range(0, 3)]

    def requires(s):
        return {"skip": 0 <= s.skip_rungs, "resource": 1 <= s.result["epoch"] and s.result["epoch"] <= s.self._max_t}

    def ensures(old, s, result):
        rs0 = old.self
        rs1 = s.self
        n = len(rs0._rungs)
        res = old.result["epoch"]
        metric = old.result["loss"]
        skip = old.skip_rungs
        nmil = n - skip if skip < n else 0  # rungs [0, nmil) are the trial's milestone rungs
        if skip == 0:
            nmil = n
        out = {"keys": len(result) == 3, "frame-scalars": rs1._max_t == rs0._max_t and rs1._mode == rs0._mode and len(rs1._rungs) == n}
        if res == rs0._max_t:
            out["at-max-stops"] = result["task_continues"] == False and result["milestone_reached"] == True  # noqa: E712
            out["at-max-frame"] = unchanged(rs1, rs0)
            return out
        j = _find_level(rs0._rungs, res)
        decided = j is not None and j < nmil and (old.trial_id not in rs0._rungs[j])
        if decided:
            out["entered-once"] = inserted(rs1._rungs[j], rs0._rungs[j], old.trial_id, metric)
            out["rule"] = stop_rule(rs1._rungs[j], metric, result["task_continues"])
            out["milestone"] = result["milestone_reached"] == True  # noqa: E712
            out["others-unchanged"] = forall(range(0, n), lambda i: unchanged(rs1._rungs[i], rs0._rungs[i]) if i != j else True)
        else:
            out["no-decision-off-milestone"] = result["task_continues"] == True and result["milestone_reached"] == False  # noqa: E712
            out["frame"] = unchanged(rs1, rs0)
        return out


def _bracket_system(mg, b):
    return mg._rung_systems[b] if mg._rung_system_per_bracket else mg._rung_systems[0]


@contract(HB_MAIN + ":HyperbandBracketManager.on_task_report", props=("C03",))
class Manager_on_task_report_stopping:
    """property-level rule for a trial of bracket b: decisions only at the bracket's own rung levels
    rung_levels[b:], each rung entered once, stop at max_t"""

    label = "HyperbandBracketManager.on_task_report(stopping)"
    params = dict(self=Obj("StoppingManager"), trial_id=Str, result=Rec(epoch=Int, loss=Real))
    proof_shapes = mgr_shapes(2)
    shapes = mgr_shapes(2, entries=1) + mgr_shapes(1, entries=2)
    raises = {"KeyError": "unknown_trial"}

    def requires(s):
        return {
            "resource": 1 <= s.result["epoch"],
            "bracket-valid": implies(s.trial_id in s.self._task_info, 0 <= s.self._task_info[s.trial_id] and s.self._task_info[s.trial_id] < s.self.num_brackets),
            "modes": forall(range(0, len(s.self._rung_systems)), lambda i: s.self._rung_systems[i]._mode == s.self._rung_systems[0]._mode),
        }

    def unknown_trial(old):
        return old.trial_id not in old.self._task_info

    def ensures(old, s, result):
        mg0 = old.self
        mg1 = s.self
        L = mg0.rung_levels
        k = len(L)
        b = mg0._task_info[old.trial_id]
        res = old.result["epoch"]
        out = {"bracket": result["bracket_id"] == b}
        if res >= mg0._max_t:
            out["stop-at-max"] = result["task_continues"] == False and result["milestone_reached"] == True  # noqa: E712
            out["frame"] = unchanged(mg1._rung_systems, mg0._rung_systems)
            return out
        # own levels of the bracket: rung_levels[b:]
        own = None
        for i in range(k):
            if i >= b and L[i] == res:
                own = i
        bi = None
        for x in range(len(mg0._rung_systems)):
            if (x == b) if mg0._rung_system_per_bracket else (x == 0):
                bi = x
        sys0 = mg0._rung_systems[bi]
        sys1 = mg1._rung_systems[bi]
        j = None
        for i in range(len(sys0._rungs)):
            if sys0._rungs[i].level == res:
                j = i
        if own is not None and j is not None and (old.trial_id not in sys0._rungs[j]):
            out["decision-at-own-level"] = result["milestone_reached"] == True  # noqa: E712
            out["entered-once"] = inserted(sys1._rungs[j], sys0._rungs[j], old.trial_id, old.result["loss"])
            out["rule"] = stop_rule(sys1._rungs[j], old.result["loss"], result["task_continues"])
        elif own is None:
            out["no-decision-off-own-levels"] = result["task_continues"] == True and result["milestone_reached"] == False  # noqa: E712
            out["frame"] = unchanged(mg1._rung_systems, mg0._rung_systems)
        return out


# -- where the rung levels and promotion quantiles come from -----------------------------------------------------------------

SH_UTILS = "syne_tune.optimizer.schedulers.utils.successive_halving"
declare_class("FreshRungSystem", HB_STOP + ":StoppingRungSystem", dict())


@contract(HB_STOP + ":RungSystem.__init__", props=("C03", "C04"))
class RungSystem_init:
    """rung j (counted from the top) carries level r_j together with ITS OWN quantile q_j"""

    params = dict(self=Obj("FreshRungSystem"), rung_levels=List(Int), promote_quantiles=List(Real), metric=Lit("loss"), mode=Enum("min", "max"), resource_attr=Lit("epoch"), max_t=Int)
    unbounded = False
    shapes = [{"rung_levels": n, "promote_quantiles": n} for n in (0, 1, 2, 3)]

    def requires(s):
        n = len(s.rung_levels)
        return {
            "increasing-below-max": forall(range(0, n), lambda i: (s.rung_levels[i] < s.rung_levels[i + 1] if i + 1 < n else s.rung_levels[i] < s.max_t) and s.rung_levels[i] >= 1),
            "quantiles-in-(0,1)": forall(range(0, n), lambda i: 0 < s.promote_quantiles[i] and s.promote_quantiles[i] < 1),
        }

    def ensures(old, s, result):
        n = len(old.rung_levels)
        rungs = s.self._rungs
        return {
            "one-rung-per-level": len(rungs) == n and s.self.num_rungs == n,
            "top-rung-first": forall(range(0, n), lambda i: rungs[i].level == old.rung_levels[n - 1 - i]) if len(rungs) == n else True,
            "level-keeps-its-own-quantile": forall(range(0, n), lambda i: req(rungs[i].prom_quant, old.promote_quantiles[n - 1 - i])) if len(rungs) == n else True,
            "rungs-start-empty": forall(range(0, n), lambda i: len(rungs[i]) == 0) if len(rungs) == n else True,
            "max-resource-kept": s.self._max_t == old.max_t,
        }


@contract(SH_UTILS + ":successive_halving_rung_levels", props=("C03", "C04"))
class RungLevels_reduction_factor:
    label = "successive_halving_rung_levels(reduction factor)"
    params = dict(rung_levels=NoneT, grace_period=Int, reduction_factor=Real, rung_increment=NoneT, max_t=Int)
    unbounded = False
    shapes = [{}]
    raises = {"AssertionError": True}

    def requires(s):
        return {"small": 1 <= s.grace_period and s.grace_period < s.max_t and s.max_t <= 30 and s.reduction_factor >= 2}

    def ensures(old, s, result):
        n = len(result)
        g, rf = old.grace_period, old.reduction_factor
        return {
            "at-least-the-grace-period": n >= 1 and result[0] == g,
            # r_k = r_min * eta^k rounded to the nearest integer
            "levels-are-the-rounded-powers": forall(range(0, n), lambda k: -0.5 <= result[k] - g * real_pow(rf, k) and result[k] - g * real_pow(rf, k) <= 0.5),
            "all-below-max": forall(range(0, n), lambda k: result[k] < old.max_t),
            # the next power reaches max_t (or rounds to max_t itself and was stripped for that reason)
            "no-level-missing": g * real_pow(rf, n) >= old.max_t or (old.max_t - g * real_pow(rf, n) <= 0.5 and g * real_pow(rf, n + 1) >= old.max_t),
        }


@contract(SH_UTILS + ":successive_halving_rung_levels", props=("C03", "C04"))
class RungLevels_increment:
    label = "successive_halving_rung_levels(rung increment)"
    params = dict(rung_levels=NoneT, grace_period=Int, reduction_factor=NoneT, rung_increment=Int, max_t=Int)
    unbounded = False
    shapes = [{}]
    raises = {"AssertionError": True}

    def requires(s):
        return {"small": 1 <= s.grace_period and s.grace_period < s.max_t and s.max_t <= 12 and s.rung_increment >= 1 and s.rung_increment <= 12}

    def ensures(old, s, result):
        n = len(result)
        return {
            "arithmetic-levels": forall(range(0, n), lambda k: result[k] == old.grace_period + k * old.rung_increment),
            "all-below-max": forall(range(0, n), lambda k: result[k] < old.max_t),
            "no-level-missing": old.grace_period + n * old.rung_increment >= old.max_t,
        }


@contract(SH_UTILS + ":successive_halving_rung_levels", props=("C03", "C04"))
class RungLevels_explicit:
    label = "successive_halving_rung_levels(explicit list)"
    params = dict(rung_levels=List(Int), grace_period=Int, reduction_factor=Opt(Real), rung_increment=Opt(Int), max_t=Int)
    unbounded = False
    shapes = [{"rung_levels": n} for n in (2, 3)]
    raises = {"AssertionError": True}

    def requires(s):
        return True

    def ensures(old, s, result):
        n = len(old.rung_levels)
        strip = old.rung_levels[n - 1] == old.max_t
        return {
            "the-given-levels-without-max_t": len(result) == (n - 1 if strip else n) and forall(range(0, len(result)), lambda k: result[k] == old.rung_levels[k]),
            "all-below-max": forall(range(0, len(result)), lambda k: result[k] < old.max_t),
        }


from pyvc.native import native_monitor  # noqa: E402

EXTRA_CHECKS = [native_monitor("C03", "contracts.c04_native", "monitor_hyperband", "hyperband", "931 (thorough 4759) scenarios of the real HyperbandScheduler; for C03 the stopping family: 170 (700) scenarios, brackets 1..3, shared and per-bracket rung systems, 12 rung systems (grace / reduction factor, rung_increment, explicit lists), both modes, reports that jump over resource values and over max_t; decisions compared with numpy quantiles on an independent ledger with tie latitude")]
