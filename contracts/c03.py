"""C03 -- stopping-type asynchronous Hyperband decides by the quantile rule."""
from pyvc.spec import *
from contracts.hb import *


@contract(HB_STOP + ":Rung.quantile", props=("C03", "C04", "C15"))
class Rung_quantile:
    params = dict(self=Obj("Rung"))

    def requires(s):
        return True

    def ensures(old, s, result):
        n = len(old.self.data)
        if n < 2:
            return {"none-below-2": result is None, "frame": unchanged(s.self, old.self)}
        return {
            "some": result is not None,
            "value==np.quantile": req(result, np_quantile_linear(old.self)),
            "frame": unchanged(s.self, old.self),
        }
