"""C01 -- worker budget and legal trial life cycle in every tuning run."""
from pyvc.spec import *
from contracts.iface import *

LEVEL = "exploration"
TUNER = "syne_tune.tuner"

EXPLANATION = (
    "Tuner._update_running_trials / _schedule_new_task / _schedule_new_tasks are verified against abstract "
    "scheduler / back end / callbacks whose interface contracts carry a ghost protocol state: every call site must "
    "satisfy the callee's protocol precondition (start -> results -> exactly one end notification; stop/pause only "
    "of running trials; resume only of paused trials; ids in sequence).  All values are symbolic; batch sizes are bounded."
)
ASSUMPTIONS = [
    "interface contracts of TrialScheduler / TrialBackend / TunerCallback / TuningStatus (contracts/iface.py) are assumed for the abstract collaborators",
    "bounded: <= 2 trials and <= 3 results per poll, n_workers <= 3",
    "precondition of _update_running_trials (established by the tuning loop, not proved here): polled trials are live and running, none was stopped by the scheduler before",
]

declare_class(
    "Tuner",
    TUNER + ":Tuner",
    dict(
        scheduler=Abstract("TrialScheduler"),
        trial_backend=Abstract("TrialBackend"),
        callbacks=List(Abstract("TunerCallback"), concrete_len=1),
        tuning_status=Abstract("TuningStatus"),
        last_seen_result_per_trial=Map(Int, RESULT_T),
        trials_scheduler_stopped=SetT(Int),
        n_workers=Int,
        asynchronous_scheduling=Bool,
        start_jobs_without_delay=Bool,
        sleep_time=Lit(0),
    ),
)


def delivery_spec(new_results, log):
    """the scheduler saw, per trial, exactly the results of the batch up to and including the first
    STOP / PAUSE decision, in batch order, each once"""
    calls = [e for e in log if e[0] == "TrialScheduler.on_trial_result"]
    p = 0
    ended = []
    ok = True
    for tid, res in new_results:
        if tid in ended:
            continue
        if p >= len(calls):
            return False
        ok = ok and calls[p][1].trial_id == tid and unchanged(calls[p][2], res)
        if calls[p][3] != "CONTINUE":
            ended.append(tid)
        p = p + 1
    return ok and p == len(calls)


def decision_for(log, tid):
    """last decision the scheduler returned for trial tid in this batch (None if it got no result)"""
    d = None
    for e in log:
        if e[0] == "TrialScheduler.on_trial_result" and e[1].trial_id == tid:
            d = e[3]
    return d


@contract(TUNER + ":Tuner._update_running_trials", props=("C01", "C02", "C13", "C20"))
class Tuner_update_running_trials:
    params = dict(self=Obj("Tuner"), trial_status_dict=ADict(Int, Tup(Obj("Trial"), STATUS_T)), new_results=List(Tup(Int, RESULT_T)))
    ghost = GHOST
    unbounded = False
    shapes = [{"trial_status_dict": d, "new_results": r} for d in (1, 2) for r in (0, 1, 2)] + [{"trial_status_dict": 1, "new_results": 3}]
    shapes_thorough = [{"trial_status_dict": d, "new_results": r} for d in (1, 2, 3) for r in (0, 1, 2, 3)]
    raises = {"ValueError": "completed_without_result"}

    def requires(s):
        keys = list(s.trial_status_dict.keys())
        vals = list(s.trial_status_dict.values())
        return {
            "dict-consistent": forall(range(0, len(keys)), lambda i: vals[i][0].trial_id == keys[i]),
            "results-of-polled-trials": forall(range(0, len(s.new_results)), lambda j: s.new_results[j][0] in s.trial_status_dict),
            "polled-trials-live-and-running": forall(range(0, len(keys)), lambda i: live(s.G, keys[i]) and s.G.phase[keys[i]] == 1),
            "not-stopped-before": forall(range(0, len(keys)), lambda i: keys[i] not in s.self.trials_scheduler_stopped),
            "statuses-of-polled-trials": forall(range(0, len(keys)), lambda i: vals[i][1] != "Paused" and vals[i][1] != "Stopping"),
        }

    def completed_without_result(old):
        keys = list(old.trial_status_dict.keys())
        vals = list(old.trial_status_dict.values())
        return exists(range(0, len(keys)), lambda i: vals[i][1] == "Completed")

    def ensures(old, s, result):
        keys = list(old.trial_status_dict.keys())
        vals = list(old.trial_status_dict.values())
        log = s.G.log
        out = {"delivered-exactly-once-in-order-nothing-after-stop": delivery_spec(old.new_results, log)}
        for i in range(len(keys)):
            t = keys[i]
            st = vals[i][1]
            d = decision_for(log, t)
            ended = st == "Completed" or st == "Failed" or st == "Stopped" or d == "STOP" or d == "PAUSE"
            out["end-told-exactly-when-run-ended[%d]" % i] = (s.G.sched[t] == 3) == ended
            out["done-iff-ended[%d]" % i] = (t in result) == ended
            out["stopped-only-on-STOP[%d]" % i] = (s.G.phase[t] == 3) == (d == "STOP" and st != "Completed")
            out["paused-only-on-PAUSE[%d]" % i] = (s.G.phase[t] == 2) == (d == "PAUSE")
        return out


@contract(TUNER + ":Tuner._schedule_new_task", props=("C01", "C20"))
class Tuner_schedule_new_task:
    params = dict(self=Obj("Tuner"))
    ghost = GHOST
    unbounded = False
    has_lists = False
    shapes = [{}]
    raises = {"StopIteration": True}

    def requires(s):
        return {
            "next-id-untouched": s.G.sched[s.G.started] == 0 and s.G.phase[s.G.started] == 0 and s.G.started >= 0,
            "worker-free-and-not-stopped": s.G.nrun < s.G.nw and s.G.stop == 0,
        }

    def ensures(old, s, result):
        new = result.trial_id == old.G.started
        return {
            "started-or-resumed": (new and s.G.started == old.G.started + 1) or ((not new) and s.G.started == old.G.started and old.G.phase[result.trial_id] == 2),
            "scheduler-told-about-start": s.G.sched[result.trial_id] == 1,
            "trial-running": s.G.phase[result.trial_id] == 1,
        }


@contract(TUNER + ":Tuner._schedule_new_tasks", props=("C01", "C02", "C12"))
class Tuner_schedule_new_tasks:
    params = dict(self=Obj("Tuner"), running_trials_ids=SetT(Int))
    ghost = GHOST
    unbounded = False
    shapes = [{"self.n_workers": k, "ret.TrialBackend.busy_trial_ids": b} for k in (1, 2) for b in (0, 1, 2) if b <= k]
    raises = {"StopIteration": "exhausted"}

    def exhausted(old, s):
        # the searcher ran out in the middle of a batch: what was started before is still the tuner's business
        a = old.G.started
        b = s.G.started
        return {
            "started-before-exhaustion-are-polled": forall(range(0, 3), lambda i: (a + i) in s.running_trials_ids if a + i < b else True) if old.self.start_jobs_without_delay else True,
            "worker-budget": len(s.running_trials_ids) <= old.self.n_workers,
        }

    def requires(s):
        return {
            "budget": len(s.running_trials_ids) <= s.self.n_workers and s.self.n_workers >= 1,
            # the running set is exactly the set of trials occupying workers; the criterion has not held yet
            "running-set-is-worker-count": s.G.nrun == len(s.running_trials_ids) and s.G.nw == s.self.n_workers and s.G.stop == 0,
            "started-nonneg": s.G.started >= 0,
            # ids that have not been issued yet are untouched, and are not in the running set
            "fresh-ids": s.G.sched[s.G.started] == 0 and s.G.phase[s.G.started] == 0 and s.G.sched[s.G.started + 1] == 0 and s.G.phase[s.G.started + 1] == 0,
            "fresh-not-running": (s.G.started not in s.running_trials_ids) and (s.G.started + 1 not in s.running_trials_ids),
            "paused-not-running": True,
        }

    def ensures(old, s, result):
        a = old.G.started
        b = s.G.started
        return {
            "worker-budget": len(s.running_trials_ids) <= old.self.n_workers,
            # every trial started in this call is in the CALLER's running set (it will be polled)
            "started-trials-are-polled": forall(range(0, 3), lambda i: (a + i) in s.running_trials_ids if a + i < b else True),
            # the same for the default mode alone (the running set is never replaced there; F9 cannot mask a regression)
            "started-trials-are-polled[without-delay]": forall(range(0, 3), lambda i: (a + i) in s.running_trials_ids if a + i < b else True) if old.self.start_jobs_without_delay else True,
            "at-most-n_workers-starts": b - a <= old.self.n_workers,
        }


from pyvc.native import native_monitor  # noqa: E402

EXTRA_CHECKS = [native_monitor("C01", "contracts.c02_native", "monitor_delivery", "delivery", "the delivery monitor of C02 / C10 (about 1400 / 4800 scenarios); for C01: back ends refuse to resume a trial that is not paused and never leave a terminal state (in-memory, LocalBackend with a scripted worker, simulator), results and end notifications in life-cycle order under the real Tuner.run")]


# at the end: contracts.c12 imports this module for Tuner_schedule_new_tasks (mutual import)
from contracts.c12 import Tuner_run  # noqa: F401,E402  (the tuning loop itself: worker budget and life cycle over whole runs, bounded)
from contracts.c10 import ScenarioSim, SimState_remove_events, SimState_push, SimState_next_until  # noqa: F401,E402  (simulator back end: event order = life-cycle order)
