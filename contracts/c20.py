"""C20 -- a checkpoint exists whenever a trial is resumed or warm-started from it."""
from pyvc.spec import *
from contracts.iface import *
from contracts.c01 import Tuner_update_running_trials, Tuner_schedule_new_task  # noqa: F401  (deletion only on STOP; resume / clone need a checkpoint)
from contracts.c05 import GetTopList  # noqa: F401  (not-promoted trials are disjoint from the promoted ones)

try:
    from collections import defaultdict
    from syne_tune.backend.trial_backend import TrialBackend
except ImportError:
    from pyvc.spec import NativeOnly as TrialBackend

LEVEL = "exploration"
PBT = "syne_tune.optimizer.schedulers.pbt"

EXPLANATION = (
    "The generic back end deletes a checkpoint only in stop_trial / stop_all and only when delete_checkpoints is set "
    "(harness with logging hooks, all flags symbolic); the tuner reaches deletion only through STOP decisions and requires "
    "an existing checkpoint for every resume / clone (C01 contracts, ghost G.ckpt); PBT marks every trial it stops as "
    "stopped and never picks a stopped trial as clone source (bounded population)."
)
ASSUMPTIONS = [
    "interface contracts of contracts/iface.py",
    "bounded: PBT population <= 3 trials; generic back end harness: <= 2 trials",
    "speculative early removal (HyperbandRemoveCheckpointsCallback) is exempt by the property's wording",
]


class CkptBackend(TrialBackend):
    """generic back end whose abstract hooks only log what they are asked to do"""

    def __init__(self, delete_checkpoints):
        self.delete_checkpoints = delete_checkpoints
        self.trial_ids = []
        self._trial_dict = dict()
        self._last_metric_seen_index = defaultdict(lambda: 0)
        self.log = []
        self.statuses = dict()

    def _schedule(self, trial_id, config):
        self.log.append(("schedule", trial_id))
        self.statuses[trial_id] = "InProgress"

    def copy_checkpoint(self, src_trial_id, tgt_trial_id):
        self.log.append(("copy", src_trial_id, tgt_trial_id))

    def delete_checkpoint(self, trial_id):
        self.log.append(("delete", trial_id))

    def _pause_trial(self, trial_id, result):
        self.log.append(("pause", trial_id))
        self.statuses[trial_id] = "Paused"

    def _resume_trial(self, trial_id):
        self.log.append(("resume", trial_id))

    def _stop_trial(self, trial_id, result):
        self.log.append(("stop", trial_id))
        self.statuses[trial_id] = "Stopped"

    def _all_trial_results(self, trial_ids):
        return [self._trial_dict[t] for t in trial_ids]


def position(log, entry):
    pos = -1
    for i in range(len(log)):
        if log[i] == entry:
            pos = i
    return pos


def scenario_backend(delete_checkpoints, warm_start, second_action):
    be = CkptBackend(delete_checkpoints)
    be.start_trial({"x": 0})
    # a second trial, optionally warm-started from the first one's checkpoint
    be.start_trial({"x": 1}, checkpoint_trial_id=0 if warm_start else None)
    if warm_start:
        check("checkpoint-copied-before-the-new-trial-starts", 0 <= position(be.log, ("copy", 0, 1)) and position(be.log, ("copy", 0, 1)) < position(be.log, ("schedule", 1)))
    else:
        check("no-copy-without-request", position(be.log, ("copy", 0, 1)) == -1)
    be.pause_trial(0)
    check("paused-trial-keeps-its-checkpoint", position(be.log, ("delete", 0)) == -1)
    be.resume_trial(0)
    check("resume-needs-no-deletion", position(be.log, ("delete", 0)) == -1)
    if second_action == 0:
        be.stop_trial(1)
        check("stop-deletes-iff-enabled", (position(be.log, ("delete", 1)) >= 0) == bool(delete_checkpoints))
        check("deletion-only-after-the-trial-was-stopped", (not delete_checkpoints) or position(be.log, ("stop", 1)) < position(be.log, ("delete", 1)))
        check("other-trials-untouched", position(be.log, ("delete", 0)) == -1)
    else:
        be.stop_all()
        check("stop_all-stops-every-running-trial", position(be.log, ("stop", 0)) >= 0 and position(be.log, ("stop", 1)) >= 0)
        check("after-tuning-all-checkpoints-may-go-iff-enabled", (position(be.log, ("delete", 0)) >= 0) == bool(delete_checkpoints))
    return True


@contract("contracts.c20:scenario_backend", props=("C20",))
class ScenarioBackend:
    label = "TrialBackend[checkpoint-scenario]"
    params = dict(delete_checkpoints=Bool, warm_start=Bool, second_action=Int)
    unbounded = False
    has_lists = False
    shapes = [{"second_action": 0}, {"second_action": 1}]

    def requires(s):
        return True

    def ensures(old, s, result):
        return {"completed": result == True}  # noqa: E712


# -- population-based training ---------------------------------------------------------------------------

declare_class("PBTTrial", "syne_tune.backend.trial_status:Trial", dict(trial_id=Int, config=Lit({})), builder="trial")
declare_class("PBTTrialState", PBT + ":PBTTrialState", dict(trial=Obj("PBTTrial"), last_score=Opt(Real), last_checkpoint=Lit(None), last_perturbation_time=Int, stopped=Bool))
declare_class(
    "PBT",
    PBT + ":PopulationBasedTraining",
    dict(
        _resource_attr=Lit("epoch"),
        metric=Lit("loss"),
        max_t=Int,
        _perturbation_interval=Int,
        _quantile_fraction=Lit(0.25),
        _metric_op=Enum(1, -1),
        _trial_state=ADict(Int, Obj("PBTTrialState")),
        _trial_decisions_stack=List(Tup(Int, Lit({}))),
        _checkpointing_history=Lit([]),
        _num_perturbations=Int,
        _custom_explore_fn=Lit(None),
        config_space=Lit({}),
        _random_state=Abstract("RandomState"),
    ),
    inv="pbt_inv",
)


def pbt_inv(p):
    ks = list(p._trial_state.keys())
    vs = list(p._trial_state.values())
    return {
        "state-keys": forall(range(0, len(ks)), lambda i: vs[i].trial.trial_id == ks[i]),
        # every pending clone decision refers to a trial that has not been stopped: its checkpoint still exists
        "clone-sources-not-stopped": forall(range(0, len(p._trial_decisions_stack)), lambda j: exists(range(0, len(ks)), lambda i: ks[i] == p._trial_decisions_stack[j][0] and not vs[i].stopped)),
    }


@contract("iface:RandomState.choice")
class I_rng_choice:
    params = dict(self=None, a=None)

    def make_result(s):
        return s.a[arbitrary("choice", Int) % len(s.a)]


@contract("iface:RandomState.rand")
class I_rng_rand:
    params = dict(self=None)
    returns = Real


@contract("syne_tune.optimizer.schedulers.fifo:FIFOScheduler._elapsed_time", props=())
class PBT_elapsed_time_assumed:
    params = dict(self=Obj("PBT"))
    modular = True
    always_modular = True
    returns = Real


@contract(PBT + ":PopulationBasedTraining.on_trial_result", props=("C20", "C15"))
class PBT_on_trial_result:
    params = dict(self=Obj("PBT"), trial=Obj("PBTTrial"), result=Rec(epoch=Int, loss=Real))
    unbounded = False
    shapes = [{"self._trial_state": n, "self._trial_decisions_stack": k} for n in (1, 2, 3) for k in (0, 1)]
    raises = {"KeyError": "unknown_trial"}

    def requires(s):
        return {"interval": s.self._perturbation_interval >= 1, "known": True}

    def unknown_trial(old):
        return old.trial.trial_id not in old.self._trial_state

    def ensures(old, s, result):
        t = old.trial.trial_id
        st1 = s.self._trial_state[t]
        out = {
            # a trial the scheduler stops is marked stopped: it is never chosen as a clone source afterwards
            "stopped-trials-are-marked": implies(result == "STOP", st1.stopped),
            "never-pauses": result != "PAUSE",
            "stop-at-max": implies(old.result["epoch"] >= old.self.max_t, result == "STOP"),
        }
        n0 = len(old.self._trial_decisions_stack)
        n1 = len(s.self._trial_decisions_stack)
        if n1 > n0:
            src = s.self._trial_decisions_stack[n1 - 1][0]
            out["clone-source-is-live"] = src != t and (src in s.self._trial_state) and not s.self._trial_state[src].stopped
        return out


from pyvc.native import native_monitor  # noqa: E402

EXTRA_CHECKS = [native_monitor("C20", "contracts.c20_native", "monitor_checkpoints", "checkpoints", "900 (thorough 3220) real Tuner runs over a scripted in-memory back end that tracks every check-point, with synchronous Hyperband (6 rung systems + geometric), DEHB (pause/resume on and off), promotion / PASHA / RUSH / cost-aware Hyperband with and without early removal call-backs, PBT and a random scripted scheduler; deletion on / off, 1..4 workers, 17 result orders inside a poll, failing and NaN trials; ghost check-point state and an independent rung model for 'can provably never be resumed'")]


# synchronous Hyperband: a trial that reached its rung level may be promoted later, so it is PAUSED (check-point kept), never stopped
from contracts.c05 import SyncHB_on_trial_result, I_sbm_level_to_prev_level, I_ss_on_trial_result, I_sbm_on_result  # noqa: F401,E402
