"""C02 + C10 (native monitor) -- every reported result is delivered exactly once, in order, never after stop;
simulated experiments replay the benchmark table faithfully in values and time.

``monitor_delivery(tier, seed)`` drives the REAL ``Tuner`` loop with a scripted scheduler (decisions CONTINUE / PAUSE /
STOP scripted per (trial, resource level), paused trials resumed through ``suggest``, 1..3 workers) on top of

  (a1) ``TickBackend`` -- a small deterministic in-memory ``TrialBackend`` subclass which only supplies the worker side
       (what has been written to the trial's result stream and the job status at each poll) and uses the generic
       ``TrialBackend.fetch_status_results`` poll logic unchanged.  Every poll is one tick; a run's script says how many
       results the worker writes before each poll (0..k), whether completion is registered in the poll that shows the last
       result or 1..2 polls later, and how many results the worker still writes after the scheduler's stop / pause decision
       (at once, and in the following ticks while the job is "stopping").
  (a2) the simulator back end ``_BlackboxSimulatorBackend`` (as ``UserBlackboxBackend`` and as a lazily-loading subclass in
       the style of ``BlackboxRepositoryBackend``) with ``SimulatorCallback`` on a hand-made ``BlackboxTabular`` whose
       elapsed-time column has dips, plateaus and noise at every position, with and without check-pointing, with and
       without ``max_resource_attr``, fixed seed and per-trial random seed, all five simulator delays, several sleep times.
       Real time is a hand-controlled clock (the ``time`` reference of time_keeper.py is replaced), advanced by scripted
       "thinking times" inside ``scheduler.on_trial_result`` and ``scheduler.suggest``.

After every step (each result handed to ``scheduler.on_trial_result``, each row appended to the results log, each back-end
call, each sleep) the clauses below are checked against an independent reference kept here (a ghost log of what each run
reported / what the table says), and at the end of each tuning run the completeness clauses and the results file on disk.
The catalogue of (a1) is run a second time without the Tuner by a minimal front end which polls EVERY trial at every tick
(also paused / stopping / stopped ones), so that hiding results of such trials is exercised as the back end's own job.

Scenario families: enumerated small cases (generic: every batching of <= 3 results over <= 3 polls x completion in the same
poll / one poll later x decision at every position x late output of the worker x second run after resume; simulator: every
defect kind at every position of a 4-level elapsed column x run through / pause at each level / two pause-resume cycles /
stop and restart x check-pointing x delays x sleep time) and seed-dependent random ones (np.random.RandomState(seed)).

What the statements leave open, and how it is treated (no false alarms):
  * the order in which results of DIFFERENT trials are delivered is open -- only per-trial order is checked;
  * how fast a result is delivered is open -- only "gap-free prefix", and "whole run" when the back end had registered the
    run's own completion at the tuner's last poll and the scheduler had not decided to stop / pause the run;
  * "after the scheduler decided to stop or pause": counted from the scheduler's point of view, i.e. after
    ``on_trial_result`` returned STOP / PAUSE for a result of a run, no further result of that run may be delivered;
  * time stamps: where the table's elapsed time since the resume point lies at least 0.01 s (the back end's documented
    repair step) after the previous report of the run (first report: after the run's start) the stamp is determined exactly:
        stamp = (simulated time when start/resume was issued + delay_start) + (elapsed(level) - elapsed(resume level))
                + delay_on_trial_result                                   (tolerance 1e-9 relative, round-off only);
    where the column is non-monotone the statement cannot hold literally (C02 demands report order): then only
        max(table value, previous stamp) <= stamp <= max(table value, previous stamp + 0.01 s)
    is required (not earlier than the table says, in report order, repair bounded by the documented 0.01 s step); a column
    that is regular again after a dip is therefore checked exactly again as soon as it has overtaken the repaired stamps;
  * pause / stop are allowed to advance simulated time by delay_stop + delay_complete_after_stop plus at most 0.01 s (the
    back end steps just past its own stop / completion events); start, resume, poll advance it by the outside time only.

  (a3) ``ScriptedLocalBackend`` -- the real ``LocalBackend`` (rotate_gpus=False: trial directory layout, std.out parsing with
       ``retrieve``, stop / pause marker files, return code of the job, "end" time stamp, ``_all_trial_results``, generic poll
       logic); only the launch of the subprocess in ``_schedule`` is replaced: the worker is played by the monitor, which
       appends report lines in the Reporter's format to the trial's std.out and sets the return code of a stand-in process
       object at chosen points.  ``stdout`` and ``_read_status`` are wrapped, so that the worker's remaining writes and its
       exit can be placed deterministically before the two reads of a poll, BETWEEN them (right after whichever of the two
       returns first) or after them: every placement of <= 3 reports + exit over the three positions of two consecutive
       polls is enumerated, through the real Tuner and with a front end which (like the Tuner) stops polling a trial once it
       was reported as completed.  Clause: a poll whose status says Completed has, together with the polls before it,
       returned every report the worker wrote (read-order / atomicity of one poll) -- and the C02 clauses above.
  (c)  resume guard (C01, "only a paused trial is ever resumed; no trial leaves a terminal state"), back ends driven directly
       (TickBackend, ScriptedLocalBackend, UserBlackboxBackend): ``resume_trial`` of a stopped / completed / failed / running
       trial raises and changes nothing (state held by the back end, status seen by later polls, no job scheduled, no
       further results); resuming a paused trial works; checked right after the stop / pause call and again after polls.

Known defects of the pinned tree are kept apart under their own clause names (everything checked inside those scenario
families is reported under the family's clause, so that the other clauses stay meaningful):
  * ``generic-backend/reports-written-after-a-pause-decision-are-never-delivered-after-resume``  (finding F5)
  * ``start-jobs-without-delay-off/trials-started-when-fewer-jobs-are-busy-than-the-tuner-lists-are-polled-and-delivered`` (F9)
The family "resume of a trial paused at its final level" (``simulator/resume-of-a-trial-paused-at-its-final-level-...``) found
an IndexError in the tabular simulator which has since been repaired in /repo; it is an ordinary clause now.

Bounded stand-in, never counted as proved.
"""
import sys

sys.modules.setdefault("yahpo_gym", None)

import contextlib
import copy
import io
import itertools
import json
import logging
import os
import shutil
import tempfile
import traceback

import numpy as np

CONTINUE, PAUSE, STOP = "CONTINUE", "PAUSE", "STOP"

C_ONCE = "scheduler-receives-each-reported-result-at-most-once"
C_ORDER = "scheduler-receives-results-of-a-run-in-report-order-without-gaps"
C_AFTER = "nothing-delivered-after-the-stop-or-pause-decision-not-even-after-resume"
C_RESUME = "after-resume-delivery-starts-with-the-first-report-of-the-new-run"
C_WHOLE = "whole-run-delivered-when-it-completed-on-its-own-before-tuning-ended"
C_SAME = "delivered-result-equals-the-reported-result"
C_LOG = "results-log-gets-one-row-per-delivery-in-delivery-order-with-the-delivered-content"
C_FILE = "results-file-holds-exactly-the-delivered-results-in-order"
C_TERM = "tuning-loop-ends-without-exception"
C_VALUES = "simulator/result-carries-exactly-the-table-values-for-config-seed-level"
C_LEVELS = "simulator/levels-consecutive-starting-at-1-or-right-after-the-checkpointed-pause-level"
C_SEED = "simulator/same-table-seed-for-all-runs-of-a-trial"
C_STAMP = "simulator/time-stamp-equals-run-start-plus-delays-plus-table-elapsed-since-resume-point"
C_REPAIR = "simulator/time-stamp-of-non-monotone-elapsed-between-table-value-and-previous-stamp-plus-0.01"
C_MONO = "simulator/simulated-time-never-runs-backwards"
C_CHARGE = "simulator/outside-real-time-and-sleep-charged-exactly-once"
C_FUTURE = "simulator/result-never-delivered-before-its-time-stamp"
C_F5 = "generic-backend/reports-written-after-a-pause-decision-are-never-delivered-after-resume"
C_F9 = "start-jobs-without-delay-off/trials-started-when-fewer-jobs-are-busy-than-the-tuner-lists-are-polled-and-delivered"
C_FINAL = "simulator/resume-of-a-trial-paused-at-its-final-level-reports-nothing-and-completes"
C_ATOMIC = "poll-that-reports-completed-has-returned-every-report-the-worker-wrote"
C_REFUSED = "backend/resume-of-a-stopped-completed-failed-or-running-trial-is-refused"
C_UNCHANGED = "backend/refused-resume-leaves-the-trial-unchanged-and-no-terminal-state-is-ever-left"
C_PAUSED_OK = "backend/resume-of-a-paused-trial-works"

CLAUSES = [C_ONCE, C_ORDER, C_AFTER, C_RESUME, C_WHOLE, C_SAME, C_LOG, C_FILE, C_TERM, C_VALUES, C_LEVELS, C_SEED, C_STAMP, C_REPAIR, C_MONO, C_CHARGE, C_FUTURE, C_F5, C_F9, C_FINAL, C_ATOMIC, C_REFUSED, C_UNCHANGED, C_PAUSED_OK]

REPAIR_STEP = 0.01  # documented minimal step of the back end's monotonicity repair
MAX_VIOLATIONS_PER_CLAUSE = 5
SAMPLE_FAMILIES = ("generic-enumerated", "generic-random", "simulator-enumerated", "simulator-random")
MAX_POLLS = 400  # a tuning run which polls more often than this is reported as not terminating

_ENV = None


class ScenarioStuck(Exception):
    pass


# --------------------------------------------------------------------------------------------------------------
# bookkeeping
# --------------------------------------------------------------------------------------------------------------
class Ctx:
    def __init__(self, seed, tier):
        self.seed, self.tier = seed, tier
        self.evaluations = 0
        self.counts = {c: 0 for c in CLAUSES}
        self.violations = []
        self.stored = {}
        self.total_violations = {}
        self.scenarios = set()
        self.spec = None
        self.route = None
        self.samples = []

    def begin(self, spec, route=None):
        self.spec = spec
        self.route = route
        self.scenarios.add(json.dumps(spec, sort_keys=True, default=str))
        fam = spec.get("family")
        if fam in SAMPLE_FAMILIES and fam not in [x["family"] for x in self.samples] and len(self.scenarios) % 7 == 3:
            small = {k: v for k, v in spec.items() if k not in ("table",)}
            if "table" in spec:
                small["table_columns"] = spec["table"]["columns"][:6]
            self.samples.append(json.loads(json.dumps(small, default=str)))

    def check(self, clause, ok, **details):
        inner = clause
        if self.route is not None:
            clause = self.route
        self.evaluations += 1
        self.counts[clause] += 1
        if not ok:
            self.total_violations[clause] = self.total_violations.get(clause, 0) + 1
            if self.stored.get(clause, 0) < MAX_VIOLATIONS_PER_CLAUSE:
                self.stored[clause] = self.stored.get(clause, 0) + 1
                v = {"clause": clause}
                if inner != clause:
                    v["inner_clause"] = inner
                v["monitor_seed"] = self.seed
                v["tier"] = self.tier
                v.update(details)
                v["scenario"] = self.spec
                self.violations.append(json.loads(json.dumps(v, default=str)))
        return bool(ok)


def _close(a, b, scale=1.0):
    return abs(a - b) <= 1e-9 * max(1.0, abs(a), abs(b), abs(scale))


# --------------------------------------------------------------------------------------------------------------
# library access (lazy, so that importing this module never needs the repository)
# --------------------------------------------------------------------------------------------------------------
def _env():
    global _ENV
    if _ENV is not None:
        return _ENV
    from pathlib import Path
    from types import SimpleNamespace

    import pandas as pd

    from syne_tune import Tuner, StoppingCriterion
    from syne_tune.backend.trial_backend import TrialBackend
    from syne_tune.backend.local_backend import LocalBackend
    from syne_tune.constants import ST_SAGEMAKER_METRIC_TAG
    from syne_tune.backend.trial_status import Status
    from syne_tune.backend.simulator_backend.simulator_backend import SimulatorConfig
    from syne_tune.backend.simulator_backend.simulator_callback import SimulatorCallback
    from syne_tune.backend.simulator_backend import time_keeper as tk_mod
    from syne_tune.blackbox_repository.blackbox_tabular import BlackboxTabular
    from syne_tune.blackbox_repository.simulated_tabular_backend import UserBlackboxBackend, _BlackboxSimulatorBackend
    from syne_tune.config_space import randint
    from syne_tune.constants import ST_DECISION, ST_STATUS, ST_TRIAL_ID, ST_TUNER_TIME, ST_WORKER_TIMESTAMP, ST_RESULTS_DATAFRAME_FILENAME
    from syne_tune.optimizer.scheduler import TrialScheduler, TrialSuggestion
    from syne_tune.results_callback import StoreResultsCallback

    class ScriptedScheduler(TrialScheduler):
        """all behaviour lives in the scenario monitor ``mon`` (plan of suggestions, scripted decisions, ghost log)"""

        def __init__(self, config_space, mon):
            super().__init__(config_space)
            self.mon = mon

        def _suggest(self, trial_id):
            act = self.mon.next_suggestion(trial_id)
            if act is None:
                return None
            kind, tid, cfg = act
            if kind == "new":
                return TrialSuggestion.start_suggestion(cfg)
            return TrialSuggestion.resume_suggestion(trial_id=tid, config=cfg)

        def on_trial_add(self, trial):
            self.mon.note("add", trial.trial_id)

        def on_trial_result(self, trial, result):
            return self.mon.deliver(trial, result)

        def on_trial_remove(self, trial):
            self.mon.note("remove", trial.trial_id)

        def on_trial_complete(self, trial, result):
            self.mon.note("complete", trial.trial_id)

        def on_trial_error(self, trial):
            self.mon.note("error", trial.trial_id)

        def metric_names(self):
            return ["loss"]

        def metric_mode(self):
            return "min"

    class TickBackend(TrialBackend):
        """worker side only; the poll logic is the generic ``TrialBackend.fetch_status_results``"""

        def __init__(self, mon, stamp_mode):
            super().__init__()
            self.mon = mon
            self.stamp_mode = stamp_mode
            self.tick = 0
            self.counter = 0
            self.metrics = {}
            self.status = {}
            self.live = []

        # -- worker model
        def _schedule(self, trial_id, config):
            run = self.mon.begin_run(trial_id)
            self.metrics.setdefault(trial_id, [])
            self.status[trial_id] = Status.in_progress
            self.live.append({"trial": trial_id, "run": run, "steps": 0, "dying": None, "level": run.first_level})

        def _write(self, w, n):
            for _ in range(n):
                self.counter += 1
                m = {
                    "epoch": w["level"],
                    "loss": 1.0 / (1 + w["level"]) + w["trial"],
                    "uid": self.counter,
                    ST_WORKER_TIMESTAMP: float(self.tick if self.stamp_mode == "tick" else self.counter),
                }
                w["level"] += 1
                self.metrics[w["trial"]].append(m)
                self.mon.new_report(w["run"], m)

        def _complete(self, w, when):
            self.status[w["trial"]] = Status.failed if w["run"].script.get("fail") else Status.completed
            self.live.remove(w)
            w["run"].completed_at = when

        def _advance(self):
            self.tick += 1
            if self.tick > MAX_POLLS:
                raise ScenarioStuck("more than %d polls" % MAX_POLLS)
            for w in list(self.live):
                t = w["trial"]
                if w["dying"] is not None:
                    if w["dying"]:
                        self._write(w, w["dying"].pop(0))
                    if not w["dying"]:
                        self.live.remove(w)
                        if self.status[t] == Status.stopping:
                            self.status[t] = Status.stopped
                else:
                    sc = w["run"].script
                    j = w["steps"]
                    w["steps"] += 1
                    if j < len(sc["batches"]):
                        self._write(w, sc["batches"][j])
                    if sc["lag"] != "busy" and j >= len(sc["batches"]) - 1 + sc["lag"]:
                        self._complete(w, self.tick)

        def _worker(self, trial_id):
            for w in self.live:
                if w["trial"] == trial_id and w["dying"] is None:
                    return w
            return None

        def _end_worker(self, trial_id, final, transient):
            w = self._worker(trial_id)
            if w is None:
                self.status[trial_id] = final
                return
            sc = w["run"].script
            self._write(w, sc["late_now"])
            w["dying"] = list(sc["late_ticks"])
            if w["dying"]:
                self.status[trial_id] = transient
            else:
                self.live.remove(w)
                self.status[trial_id] = final

        def _pause_trial(self, trial_id, result):
            self.mon.backend_call("pause", trial_id, result)
            # like LocalBackend: the status is "paused" as soon as the tuner asked for it
            self._end_worker(trial_id, Status.paused, Status.paused)

        def _stop_trial(self, trial_id, result):
            self.mon.backend_call("stop", trial_id, result)
            self._end_worker(trial_id, Status.stopped, Status.stopping)

        def _resume_trial(self, trial_id):
            self.mon.backend_call("resume", trial_id, None)

        def fetch_status_results(self, trial_ids):
            self._advance()
            out = super().fetch_status_results(trial_ids)
            self.mon.polled(list(trial_ids), out)
            return out

        def _all_trial_results(self, trial_ids):
            return [self._trial_dict[t].add_results(metrics=list(self.metrics[t]), status=self.status[t], training_end_time=None) for t in trial_ids]

        def busy_trial_ids(self):
            for w in list(self.live):
                if w["dying"] is None and w["run"].script["lag"] == "busy" and w["steps"] >= len(w["run"].script["batches"]):
                    self._complete(w, self.tick + 0.5)
            return [(t, s) for t, s in self.status.items() if s in (Status.in_progress, Status.stopping)]

        # -- not needed
        def copy_checkpoint(self, src_trial_id, tgt_trial_id):
            pass

        def delete_checkpoint(self, trial_id):
            pass

        def stdout(self, trial_id):
            return []

        def stderr(self, trial_id):
            return []

        def entrypoint_path(self):
            return Path("c02_native_tick.py")

    class FakeProcess:
        """stands in for the ``subprocess.Popen`` object of a trial: the worker itself is played by the monitor"""

        def __init__(self):
            self.returncode = None

        def poll(self):
            return self.returncode

        def kill(self):
            if self.returncode is None:
                self.returncode = -9

        def wait(self, timeout=None):
            return self.returncode

    class ScriptedLocalBackend(LocalBackend):
        """the real LocalBackend except for the launch of the subprocess; ``stdout`` / ``_read_status`` are wrapped so that the
        worker can act right after each of the two reads of a poll.  Slots of a run's script: 3 * (poll since start) + j,
        j = 0 before the reads of that poll, 1 after the first read returned, 2 after the second read returned"""

        def __init__(self, mon, entry_point):
            super().__init__(entry_point=entry_point, rotate_gpus=False)
            self.mon = mon
            self.tick = 0
            self.counter = 0
            self.workers = {}
            self.in_fetch = False
            self.in_poll = False
            self.reads = {}
            self.scheduled = {}

        def _schedule(self, trial_id, config):
            trial_path = self.trial_path(trial_id)
            os.makedirs(trial_path, exist_ok=True)
            for name in ("std.out", "std.err"):
                open(trial_path / name, "a").close()
            proc = FakeProcess()
            self.trial_subprocess[trial_id] = proc
            self._busy_trial_id_candidates.add(trial_id)
            self.scheduled[trial_id] = self.scheduled.get(trial_id, 0) + 1
            run = self.mon.begin_run(trial_id)
            self.workers[trial_id] = {"trial": trial_id, "run": run, "proc": proc, "todo": [list(a) for a in run.script["actions"]], "level": run.first_level, "t0": self.tick}

        def _act(self, trial_id, j):
            w = self.workers.get(trial_id)
            if w is None:
                return
            slot = 3 * (self.tick - w["t0"] - 1) + j
            while w["todo"] and w["todo"][0][0] <= slot and w["proc"].returncode is None:
                _, kind = w["todo"].pop(0)
                if kind == "w":
                    self.counter += 1
                    m = {"epoch": w["level"], "loss": 1.0 / (1 + w["level"]) + trial_id, "uid": self.counter, ST_WORKER_TIMESTAMP: float(self.counter)}
                    w["level"] += 1
                    with open(self.trial_path(trial_id) / "std.out", "a") as f:
                        f.write("some log line of the training script\n[%s]: %s\n" % (ST_SAGEMAKER_METRIC_TAG, json.dumps(m)))
                    self.mon.new_report(w["run"], m)
                else:
                    w["proc"].returncode = 0 if kind == "x" else 1
                    if kind == "x":
                        w["run"].completed_at = self.tick if j < 2 else self.tick + 0.5

        def _after_read(self, trial_id):
            if self.in_poll:
                n = self.reads.get(trial_id, 0) + 1
                self.reads[trial_id] = n
                self._act(trial_id, 1 if n == 1 else 2)

        def stdout(self, trial_id):
            lines = super().stdout(trial_id)
            self._after_read(trial_id)
            return lines

        def _read_status(self, trial_id):
            status = super()._read_status(trial_id)
            self._after_read(trial_id)
            return status

        def _all_trial_results(self, trial_ids):
            self.in_poll = self.in_fetch
            try:
                return super()._all_trial_results(trial_ids)
            finally:
                self.in_poll = False

        def fetch_status_results(self, trial_ids):
            self.tick += 1
            if self.tick > MAX_POLLS:
                raise ScenarioStuck("more than %d polls" % MAX_POLLS)
            for t in sorted(self.workers):
                self._act(t, 0)
            self.in_fetch, self.reads = True, {}
            try:
                out = super().fetch_status_results(trial_ids)
            finally:
                self.in_fetch = False
            for t in sorted(self.workers):
                self._act(t, 2)
            self.mon.polled(list(trial_ids), out)
            return out

        def _pause_trial(self, trial_id, result):
            self.mon.backend_call("pause", trial_id, result)
            super()._pause_trial(trial_id, result)

        def _stop_trial(self, trial_id, result):
            self.mon.backend_call("stop", trial_id, result)
            super()._stop_trial(trial_id, result)

    class CountingUser(UserBlackboxBackend):
        """counts the jobs scheduled per trial"""

        scheduled = None

        def _schedule(self, trial_id, config):
            if self.scheduled is None:
                self.scheduled = {}
            self.scheduled[trial_id] = self.scheduled.get(trial_id, 0) + 1
            super()._schedule(trial_id, config)

    class LogCallback(StoreResultsCallback):
        def __init__(self, mon):
            super().__init__()
            self.mon = mon

        def on_trial_result(self, trial, status, result, decision):
            n = len(self.results)
            super().on_trial_result(trial, status, result, decision)
            self.mon.logged(self.results[n:], trial, result, decision)

    class SimLogCallback(SimulatorCallback):
        def __init__(self, mon):
            super().__init__()
            self.mon = mon

        def on_tuning_start(self, tuner):
            super().on_tuning_start(tuner)
            self.mon.time_started(tuner.trial_backend.time_keeper)

        def on_tuning_sleep(self, sleep_time):
            super().on_tuning_sleep(sleep_time)
            self.mon.slept()

        def on_trial_result(self, trial, status, result, decision):
            n = len(self.results)
            super().on_trial_result(trial, status, result, decision)
            self.mon.logged(self.results[n:], trial, result, decision)

    class ObserveMixin:
        """reports every public back-end call, and the simulated time right after it, to the scenario monitor"""

        mon = None

        def start_trial(self, config, checkpoint_trial_id=None):
            trial = super().start_trial(config, checkpoint_trial_id)
            self.mon.backend_exit("start", trial.trial_id, dict(config), self.time_keeper.time())
            return trial

        def resume_trial(self, trial_id, new_config=None):
            trial = super().resume_trial(trial_id, new_config)
            self.mon.backend_exit("resume", trial_id, None if new_config is None else dict(new_config), self.time_keeper.time())
            return trial

        def pause_trial(self, trial_id, result=None):
            super().pause_trial(trial_id, result)
            self.mon.backend_exit("pause", trial_id, result, self.time_keeper.time())

        def stop_trial(self, trial_id, result=None):
            super().stop_trial(trial_id, result)
            self.mon.backend_exit("stop", trial_id, result, self.time_keeper.time())

        def fetch_status_results(self, trial_ids):
            out = super().fetch_status_results(trial_ids)
            self.mon.backend_exit("fetch", list(trial_ids), out, self.time_keeper.time())
            return out

    class ObservedUser(ObserveMixin, UserBlackboxBackend):
        pass

    class ObservedLazy(ObserveMixin, _BlackboxSimulatorBackend):
        """in the style of BlackboxRepositoryBackend: the blackbox is loaded on first access"""

        def __init__(self, factory, **kwargs):
            super().__init__(**kwargs)
            self._factory = factory
            self._bb = None

        @property
        def blackbox(self):
            if self._bb is None:
                self._bb = self._factory()
            return self._bb

    class Clock:
        """stands in for the ``time`` module inside time_keeper.py"""

        def __init__(self):
            self.now = 1000.0

        def time(self):
            return self.now

    _ENV = SimpleNamespace(**{k: v for k, v in locals().items() if not k.startswith("_")})
    return _ENV


# --------------------------------------------------------------------------------------------------------------
# scenario monitors (reference model + checks)
# --------------------------------------------------------------------------------------------------------------
class Run:
    def __init__(self, trial, k):
        self.trial, self.k = trial, k
        self.reports = []  # generic: reference copies of what the worker wrote, in report order
        self.delivered = 0
        self.decision = None
        self.decision_level = None
        self.completed_at = None
        self.script = None
        self.first_level = 1
        # simulator
        self.S = None
        self.L0 = 0
        self.Lmax = None
        self.cfg = None
        self.last_level = None
        self.last_rel = None
        self.levels_seen = set()


class BaseMon:
    def __init__(self, ctx, spec):
        self.ctx, self.spec = ctx, spec
        self.plan = list(spec["plan"])
        self.resume_rest = bool(spec.get("resume_rest", True))
        self.never_resume = set(spec.get("never_resume", []))
        self.decisions = {k: list(v) for k, v in spec["decisions"].items()}
        self.paused = []
        self.runs = {}
        self.step = 0
        self.sched_seq = []
        self.log_seq = []
        self.events = []
        self.n_new = 0

    def note(self, what, trial_id):
        self.events.append((what, trial_id))

    def think(self, where):
        pass

    def new_config(self, i):
        raise NotImplementedError

    def resume_config(self, trial_id):
        return None

    def next_suggestion(self, new_id):
        self.think("suggest")
        while self.plan:
            a = self.plan.pop(0)
            if a == "R":
                if self.paused:
                    t = self.paused.pop(0)
                    return ("resume", t, self.resume_config(t))
                continue
            if self.n_new < self.spec["n_trials"]:
                self.n_new += 1
                return ("new", None, self.new_config(self.n_new - 1))
        if self.resume_rest and self.paused:
            t = self.paused.pop(0)
            return ("resume", t, self.resume_config(t))
        return None

    def scripted_decision(self, trial_id, level):
        lst = self.decisions.get("%d:%d" % (trial_id, level))
        if lst:
            return lst.pop(0)
        return CONTINUE

    def decided(self, run, level, decision):
        if decision != CONTINUE:
            run.decision = decision
            run.decision_level = level
            if decision == PAUSE and run.trial not in self.never_resume:
                self.paused.append(run.trial)

    def ident(self, **kw):
        d = {"step": self.step}
        d.update(kw)
        return d


class GenMon(BaseMon):
    """generic poll back end: every report carries a unique id, the ghost log knows run and position of each"""

    def __init__(self, ctx, spec):
        super().__init__(ctx, spec)
        self.by_uid = {}
        self.seen = set()
        self.resume_level = {}
        self.final_tick = None
        self.returned = set()
        self.polls = 0

    def new_config(self, i):
        return {"x": i}

    def begin_run(self, trial_id):
        runs = self.runs.setdefault(trial_id, [])
        run = Run(trial_id, len(runs))
        scripts = self.spec["trials"][trial_id]["runs"] if trial_id < len(self.spec["trials"]) else []
        run.script = scripts[run.k] if run.k < len(scripts) else {"batches": [1], "lag": 0, "late_now": 0, "late_ticks": []}
        run.first_level = self.resume_level.get(trial_id, 0) + 1
        runs.append(run)
        return run

    def new_report(self, run, metric):
        self.by_uid[metric["uid"]] = (run, len(run.reports))
        run.reports.append(dict(metric))

    def backend_call(self, what, trial_id, result):
        self.events.append((what, trial_id))
        if what == "pause" and result is not None:
            self.resume_level[trial_id] = int(result["epoch"])

    def polled(self, trial_ids, out):
        """read-order / atomicity of one poll: status Completed => every report of that run has been returned by now"""
        E = _env()
        self.polls += 1
        status, results = out
        for _, res in results:
            self.returned.add(res.get("uid"))
        for t in trial_ids:
            runs = self.runs.get(t)
            if runs and status[t][1] == E.Status.completed and runs[-1].decision is None:
                missing = [m["epoch"] for m in runs[-1].reports if m["uid"] not in self.returned]
                self.ctx.check(C_ATOMIC, not missing, trial=t, run=runs[-1].k, poll=self.polls, levels_written_by_the_worker=[m["epoch"] for m in runs[-1].reports], levels_not_returned_although_status_is_completed=missing)

    def deliver(self, trial, result):
        ctx = self.ctx
        self.step += 1
        t = trial.trial_id
        uid = result.get("uid")
        known = uid in self.by_uid
        ctx.check(C_SAME, known and self.by_uid[uid][0].trial == t and dict(result) == self.by_uid[uid][0].reports[self.by_uid[uid][1]], **self.ident(trial=t, delivered=dict(result)))
        if not known:
            return CONTINUE
        run, idx = self.by_uid[uid]
        cur = self.runs[run.trial][-1]
        ident = self.ident(trial=t, run=run.k, position_in_run=idx, level=result.get("epoch"), current_run=cur.k, delivered_so_far_of_that_run=run.delivered, decision_of_that_run=run.decision, decision_level=run.decision_level)
        ctx.check(C_ONCE, uid not in self.seen, **ident)
        ctx.check(C_AFTER, run.decision is None, **ident)
        ctx.check(C_ORDER, idx == run.delivered, **ident)
        if cur.k >= 1 and cur.delivered == 0:
            ctx.check(C_RESUME, run is cur and idx == 0, **ident)
        self.seen.add(uid)
        run.delivered = max(run.delivered, idx + 1)
        level = int(result["epoch"])
        decision = self.scripted_decision(t, level)
        self.decided(cur, level, decision)
        self.sched_seq.append((t, uid, decision, dict(result)))
        return decision

    def logged(self, rows, trial, result, decision):
        E = _env()
        k = len(self.log_seq)
        ok = len(rows) == 1 and k < len(self.sched_seq)
        if ok:
            row = rows[0]
            t, uid, dec, res = self.sched_seq[k]
            ok = row.get(E.ST_TRIAL_ID) == t and row.get("uid") == uid and row.get(E.ST_DECISION) == dec and all(row.get(key) == val for key, val in res.items())
            self.log_seq.append((row.get(E.ST_TRIAL_ID), row.get("uid")))
        else:
            self.log_seq.append((None, None))
        self.ctx.check(C_LOG, ok, **self.ident(trial=trial.trial_id, rows=[{k_: v for k_, v in r.items()} for r in rows], delivery=self.sched_seq[k][:3] if k < len(self.sched_seq) else None))

    def finish(self, final_tick, with_log=True):
        ctx = self.ctx
        for t, runs in sorted(self.runs.items()):
            for run in runs:
                if run.decision is None and run.completed_at is not None and run.completed_at <= final_tick:
                    ctx.check(
                        C_WHOLE,
                        run.delivered == len(run.reports),
                        trial=t,
                        run=run.k,
                        reported_levels=[m["epoch"] for m in run.reports],
                        delivered_count=run.delivered,
                        completion_registered_at_poll=run.completed_at,
                        last_poll=final_tick,
                    )
        if with_log:
            ctx.check(C_LOG, len(self.log_seq) == len(self.sched_seq), at="end", log_rows=len(self.log_seq), deliveries=len(self.sched_seq))

    def file_rows(self):
        return [(t, uid, float(res["loss"])) for t, uid, _, res in self.sched_seq]


class LocalMon(GenMon):
    """ScriptedLocalBackend: a run's script is a list of [slot, action] (action w = write a report, x = exit 0, f = exit 1)"""

    def begin_run(self, trial_id):
        runs = self.runs.setdefault(trial_id, [])
        run = Run(trial_id, len(runs))
        scripts = self.spec["trials"][trial_id]["runs"] if trial_id < len(self.spec["trials"]) else []
        run.script = scripts[run.k] if run.k < len(scripts) else {"actions": [[0, "w"], [0, "x"]]}
        run.first_level = self.resume_level.get(trial_id, 0) + 1
        runs.append(run)
        return run


class SimMon(BaseMon):
    """simulator back end: the reference is the table itself plus the observed simulated time at each back-end call"""

    def __init__(self, ctx, spec, table, clock):
        super().__init__(ctx, spec)
        self.table = table  # (n_cfg, n_seed, n_fid, 3): loss, cost, elapsed
        self.table_copy = table.copy()
        self.clock = clock
        b = spec["backend"]
        self.ckpt = b["checkpointing"]
        self.fixed_seed = b["seed"]
        self.mra = b["max_resource_attr"]
        self.d_result, self.d_complete, self.d_cas, self.d_start, self.d_stop = b["delays"]
        self.sleep_time = b["tuner_sleep_time"]
        self.n_fid = table.shape[2]
        self.pause_level = {}
        self.seed_of = {}
        self.tk = None
        self.t_prev = None
        self.clock_prev = None
        self.sleeps = 0.0
        self.t_last = None
        self.t_fetch = None
        self.status_at_last_fetch = {}
        self.backend = None
        self.n_think = {"result": 0, "suggest": 0}
        self.resumes = {}

    # -- scheduler side
    def think(self, where):
        lst = self.spec["think"].get(where) or [0.0]
        self.clock.now += lst[self.n_think[where] % len(lst)]
        self.n_think[where] += 1

    def new_config(self, i):
        c = self.spec["configs"][i]
        n_cfg = self.table.shape[0]
        cfg = {"x": c, "y": n_cfg - 1 - c}
        if self.mra:
            cfg["epochs"] = self.spec["max_resource"][i][0]
        return cfg

    def resume_config(self, trial_id):
        if not self.mra:
            return None
        k = self.resumes.get(trial_id, 0) + 1
        self.resumes[trial_id] = k
        lst = self.spec["max_resource"][trial_id]
        c = self.spec["configs"][trial_id]
        return {"x": c, "y": self.table.shape[0] - 1 - c, "epochs": lst[min(k, len(lst) - 1)]}

    # -- time
    def time_started(self, time_keeper):
        self.tk = time_keeper
        self.t_prev = time_keeper.time()
        self.t_last = self.t_prev
        self.clock_prev = self.clock.now

    def _observe(self, t, what):
        self.ctx.check(C_MONO, t >= self.t_last, at=what, time=t, previous=self.t_last, step=self.step)
        self.t_last = max(t, self.t_last)

    def slept(self):
        t = self.tk.time()
        self._observe(t, "sleep")
        self.sleeps += self.sleep_time
        want = self.t_prev + self.sleeps
        self.ctx.check(C_CHARGE, _close(t, want), at="sleep", time=t, expected=want, step=self.step)

    def _charge(self, what, t):
        outside = self.clock.now - self.clock_prev
        ref = self.t_prev + self.sleeps + outside
        self._observe(t, what)
        if what in ("pause", "stop"):
            lo = ref + self.d_stop + self.d_cas
            ok = lo - 1e-9 * max(1.0, abs(lo)) <= t <= lo + REPAIR_STEP + 1e-9 * max(1.0, abs(lo))
        else:
            lo = ref
            ok = _close(t, ref)
        self.ctx.check(C_CHARGE, ok, at=what, time_after_call=t, expected=lo, time_after_previous_call=self.t_prev, slept_since=self.sleeps, outside_real_time_since=outside, step=self.step)
        self.t_prev, self.sleeps, self.clock_prev = t, 0.0, self.clock.now

    def backend_exit(self, what, a, b, t):
        self.events.append((what, a if not isinstance(a, list) else tuple(a), t))
        self._charge(what, t)
        if what == "start":
            runs = self.runs.setdefault(a, [])
            run = Run(a, 0)
            run.cfg = b
            run.L0 = 0
            run.Lmax = int(b["epochs"]) if self.mra and "epochs" in b else self.n_fid
            run.S = t + self.d_start
            runs.append(run)
        elif what == "resume":
            runs = self.runs[a]
            prev = runs[-1]
            run = Run(a, len(runs))
            run.cfg = b if b is not None else prev.cfg
            run.L0 = self.pause_level.get(a, 0) if self.ckpt else 0
            run.Lmax = int(run.cfg["epochs"]) if self.mra and "epochs" in run.cfg else self.n_fid
            run.S = t + self.d_start
            runs.append(run)
        elif what == "pause":
            if b is not None and "epoch" in b:
                self.pause_level[a] = int(b["epoch"])
        elif what == "fetch":
            self.t_fetch = t
            st = {}
            for tid, runs in self.runs.items():
                st[tid] = (getattr(self.backend._trial_dict.get(tid), "status", None), runs[-1].k)
            self.status_at_last_fetch = st

    # -- deliveries
    def deliver(self, trial, result):
        E = _env()
        ctx = self.ctx
        self.step += 1
        t = trial.trial_id
        cur = self.runs[t][-1]
        level = result.get("epoch")
        stamp = result.get(E.ST_TUNER_TIME)
        c = int(cur.cfg["x"])
        wellformed = isinstance(level, (int, np.integer)) and 1 <= int(level) <= self.n_fid and isinstance(stamp, (int, float, np.floating)) and "loss" in result and "cost" in result and "elapsed" in result
        ident = self.ident(trial=t, run=cur.k, config_index=c, level=level, stamp=stamp, run_start=cur.S, resumed_after_level=cur.L0, run_max_level=cur.Lmax, delivered_so_far_of_this_run=cur.delivered, decision_of_this_run=cur.decision, events=[list(e) for e in self.events[-6:]])
        if not wellformed:
            ctx.check(C_VALUES, False, malformed=dict(result), **ident)
            return CONTINUE
        level = int(level)
        stamp = float(stamp)
        old = cur.k >= 1 and stamp < cur.S - 1e-9 * max(1.0, abs(cur.S))  # reported before the current run had started
        ctx.check(C_AFTER, cur.decision is None and not old, reported_by_an_earlier_run=old, **ident)
        if cur.k >= 1 and cur.delivered == 0:
            ctx.check(C_RESUME, (not old) and level == cur.L0 + 1, reported_by_an_earlier_run=old, **ident)
        # values / seed
        s_dec = int(round((float(result["loss"]) - 1000.0 * c - level - 0.5) / 100.0))
        if self.fixed_seed is not None:
            s = self.fixed_seed
        else:
            s = self.seed_of.setdefault(t, s_dec)
        ctx.check(C_SEED, s_dec == s and 0 <= s < self.table.shape[1], seed_of_this_result=s_dec, seed_of_the_trial=s, **ident)
        if not 0 <= s < self.table.shape[1]:
            s = 0
        row = self.table_copy[c, s, level - 1]
        ctx.check(C_VALUES, float(result["loss"]) == row[0] and float(result["cost"]) == row[1], got=[result["loss"], result["cost"]], table_row=row[:2].tolist(), seed=s, **ident)
        if not old:
            expected = cur.L0 + 1 + cur.delivered
            ctx.check(C_ONCE, level not in cur.levels_seen, **ident)
            ctx.check(C_ORDER, level == expected, expected_level=expected, **ident)
            ctx.check(C_LEVELS, level == (cur.L0 + 1 if cur.last_level is None else cur.last_level + 1) and level <= cur.Lmax, previous_level_of_this_run=cur.last_level, **ident)
            # time stamp
            e = self.table_copy[c, s, :, 2]
            e0 = e[cur.L0 - 1] if cur.L0 >= 1 else 0.0
            r = float(e[level - 1] - e0)
            rel = (stamp - cur.S) - self.d_result
            prev = cur.last_rel
            lo = max(r, prev if prev is not None else 0.0)
            hi = max(r, (prev + REPAIR_STEP) if prev is not None else REPAIR_STEP)
            tol = 1e-9 * max(1.0, abs(stamp), abs(r))
            info = dict(table_elapsed_since_resume_point=r, stamp_minus_start_minus_delay=rel, previous_report_of_this_run=prev)
            if hi - lo <= tol:
                ctx.check(C_STAMP, abs(rel - r) <= tol, expected_stamp=cur.S + r + self.d_result, **info, **ident)
            else:
                ctx.check(C_REPAIR, lo - tol <= rel <= hi + tol, allowed=[lo, hi], **info, **ident)
            ctx.check(C_FUTURE, self.t_fetch is not None and stamp <= self.t_fetch + tol, time_of_the_poll=self.t_fetch, **ident)
            cur.levels_seen.add(level)
            cur.last_level = level
            cur.last_rel = rel
            if level >= expected:
                cur.delivered = level - cur.L0
        decision = self.scripted_decision(t, level)
        self.decided(cur, level, decision)
        self.sched_seq.append((t, level, stamp, decision, dict(result)))
        self.think("result")
        return decision

    def logged(self, rows, trial, result, decision):
        E = _env()
        k = len(self.log_seq)
        ok = len(rows) == 1 and k < len(self.sched_seq)
        if ok:
            row = rows[0]
            t, level, stamp, dec, res = self.sched_seq[k]
            ok = row.get(E.ST_TRIAL_ID) == t and row.get(E.ST_DECISION) == dec and all(row.get(key) == val for key, val in res.items())
        self.log_seq.append(k)
        self.ctx.check(C_LOG, ok, **self.ident(trial=trial.trial_id, rows=[dict(r) for r in rows], delivery=list(self.sched_seq[k][:4]) if k < len(self.sched_seq) else None))

    def finish(self):
        ctx = self.ctx
        E = _env()
        for t, runs in sorted(self.runs.items()):
            cur = runs[-1]
            # the back end had registered the completion of THIS run when the tuner polled for the last time
            if cur.decision is None and self.status_at_last_fetch.get(t) == (E.Status.completed, cur.k):
                ctx.check(C_WHOLE, cur.levels_seen == set(range(cur.L0 + 1, cur.Lmax + 1)), trial=t, run=cur.k, levels_of_the_run=[cur.L0 + 1, cur.Lmax], delivered_levels=sorted(cur.levels_seen), status_at_last_poll="Completed", events=[list(e) for e in self.events[-8:]])
        ctx.check(C_LOG, len(self.log_seq) == len(self.sched_seq), at="end", log_rows=len(self.log_seq), deliveries=len(self.sched_seq))
        ctx.check(C_VALUES, bool(np.array_equal(self.table, self.table_copy)), at="end", what="the table itself must not be modified by the replay")

    def file_rows(self):
        return [(t, level, float(res["loss"])) for t, level, _, _, res in self.sched_seq]


# --------------------------------------------------------------------------------------------------------------
# running one scenario
# --------------------------------------------------------------------------------------------------------------
_COUNTER = [0]


def _stop_criterion(E, stop):
    if not stop:
        return E.StoppingCriterion(max_num_trials_started=10**6)
    return E.StoppingCriterion(**stop)


def _run_tuner(E, ctx, mon, backend, callback, config_space, spec):
    _COUNTER[0] += 1
    sched = E.ScriptedScheduler(config_space, mon)
    tuner = E.Tuner(
        trial_backend=backend,
        scheduler=sched,
        stop_criterion=_stop_criterion(E, spec.get("stop")),
        n_workers=spec["n_workers"],
        sleep_time=0,
        callbacks=[callback],
        save_tuner=False,
        tuner_name="c02n-%d-%d" % (os.getpid(), _COUNTER[0]),
        suffix_tuner_name=False,
        print_update_interval=1e9,
        results_update_interval=1e9,
        asynchronous_scheduling=spec.get("asynchronous", True),
        wait_trial_completion_when_stopping=spec.get("wait", False),
        start_jobs_without_delay=spec.get("start_jobs_without_delay", True),
    )
    err = None
    with contextlib.redirect_stdout(io.StringIO()):
        try:
            tuner.run()
        except Exception as exc:  # reported as a violation of C_TERM below
            err = "%s: %s | %s" % (type(exc).__name__, exc, traceback.format_exc()[-700:])
    ctx.check(C_TERM, err is None, exception=err, events=[list(e) for e in mon.events[-8:]])
    return tuner, err


def _check_file(E, ctx, mon, tuner, key):
    import pandas as pd

    path = tuner.tuner_path / E.ST_RESULTS_DATAFRAME_FILENAME
    want = mon.file_rows()
    got = None
    try:
        if os.path.exists(path):
            df = pd.read_csv(path, float_precision="round_trip")
            got = [(int(a), int(b), float(c)) for a, b, c in zip(df[E.ST_TRIAL_ID].tolist(), df[key].tolist(), df["loss"].tolist())] if len(df) else []
        elif not want:
            got = []
    except Exception as exc:
        got = "unreadable: %s" % exc
    ctx.check(C_FILE, got == [(int(a), int(b), float(c)) for a, b, c in want], file_rows=got if not isinstance(got, list) else got[:40], delivered=want[:40])


def run_generic(E, ctx, spec, route=None):
    ctx.begin(spec, route)
    mon = GenMon(ctx, spec)
    backend = E.TickBackend(mon, spec.get("stamp_mode", "tick"))
    cb = E.LogCallback(mon)
    tuner, err = _run_tuner(E, ctx, mon, backend, cb, {"x": E.randint(0, 99)}, spec)
    mon.finish(backend.tick)
    _check_file(E, ctx, mon, tuner, "uid")
    shutil.rmtree(tuner.tuner_path, ignore_errors=True)
    return mon


def _local_backend(E, mon):
    _COUNTER[0] += 1
    backend = E.ScriptedLocalBackend(mon, entry_point=os.path.abspath(__file__))
    backend.set_path(os.path.join(os.environ["SYNETUNE_FOLDER"], "c02n-local-%d-%d" % (os.getpid(), _COUNTER[0])))
    return backend


def run_local(E, ctx, spec, route=None):
    """real Tuner.run on the real LocalBackend whose worker is played by the monitor"""
    ctx.begin(spec, route)
    mon = LocalMon(ctx, spec)
    backend = _local_backend(E, mon)
    cb = E.LogCallback(mon)
    tuner, err = _run_tuner(E, ctx, mon, backend, cb, {"x": E.randint(0, 99)}, spec)
    mon.finish(backend.tick)
    _check_file(E, ctx, mon, tuner, "uid")
    shutil.rmtree(tuner.tuner_path, ignore_errors=True)
    return mon


def run_generic_direct(E, ctx, spec, route=None, local=False):
    """the same worker model and ghost log, but WITHOUT the Tuner: a minimal front end which polls EVERY trial it ever started
    (also paused, stopping and stopped ones) at every tick, so that hiding the results of such trials is the back end's job
    alone (``TrialBackend.fetch_status_results``); results after a decision in the same batch are skipped like the Tuner does.
    With ``local`` the back end is ScriptedLocalBackend and the front end polls, like the Tuner, only trials which have not
    been reported as completed / failed and have not been stopped or paused"""
    from types import SimpleNamespace

    ctx.begin(spec, route)
    if local:
        mon = LocalMon(ctx, spec)
        backend = _local_backend(E, mon)
    else:
        mon = GenMon(ctx, spec)
        backend = E.TickBackend(mon, spec.get("stamp_mode", "tick"))
    active, started, exhausted, err, idle = set(), [], False, None, 0
    try:
        while idle < (1 if local else 4):
            while not exhausted and len(active) < spec["n_workers"]:
                act = mon.next_suggestion(backend.new_trial_id())
                if act is None:
                    exhausted = True
                elif act[0] == "new":
                    trial = backend.start_trial(act[2])
                    started.append(trial.trial_id)
                    active.add(trial.trial_id)
                else:
                    backend.resume_trial(act[1])
                    active.add(act[1])
            if local and exhausted and not active:
                break
            status, results = backend.fetch_status_results(sorted(active) if local else list(started))
            done = set()
            for tid, res in results:
                if tid in done:
                    continue
                decision = mon.deliver(SimpleNamespace(trial_id=tid), res)
                if decision == STOP:
                    if status[tid][1] != E.Status.completed:
                        backend.stop_trial(tid, res)
                elif decision == PAUSE:
                    backend.pause_trial(tid, res)
                if decision != CONTINUE:
                    done.add(tid)
                    active.discard(tid)
            for tid, (_, st) in status.items():
                if st in (E.Status.completed, E.Status.failed):
                    active.discard(tid)
            # a few more polls after the last job ended, so that late output of stopping workers becomes visible
            idle = idle + 1 if (exhausted and not active) else 0
    except Exception as exc:
        err = "%s: %s | %s" % (type(exc).__name__, exc, traceback.format_exc()[-700:])
    ctx.check(C_TERM, err is None, exception=err, events=[list(e) for e in mon.events[-8:]])
    mon.finish(backend.tick, with_log=False)
    if local:
        shutil.rmtree(backend.local_path, ignore_errors=True)
    return mon


def make_table(n_cfg, n_seed, elapsed):
    elapsed = np.asarray(elapsed, dtype=np.float64)
    n_fid = elapsed.shape[2]
    ev = np.zeros((n_cfg, n_seed, n_fid, 3))
    for c in range(n_cfg):
        for s in range(n_seed):
            for f in range(n_fid):
                ev[c, s, f, 0] = 1000.0 * c + 100.0 * s + (f + 1) + 0.5
                ev[c, s, f, 1] = 0.25 * ((7 * c + 3 * s + 5 * f) % 11)
    ev[:, :, :, 2] = elapsed
    return ev


def make_blackbox(E, ev):
    import pandas as pd

    n_cfg, _, n_fid, _ = ev.shape
    hp = pd.DataFrame({"x": list(range(n_cfg)), "y": [n_cfg - 1 - i for i in range(n_cfg)]})
    return E.BlackboxTabular(
        hyperparameters=hp,
        configuration_space={"x": E.randint(0, n_cfg - 1), "y": E.randint(0, n_cfg - 1)},
        fidelity_space={"epoch": E.randint(1, n_fid)},
        objectives_evaluations=ev.copy(),
        objectives_names=["loss", "cost", "elapsed"],
    )


def run_sim(E, ctx, spec, clock, route=None):
    ctx.begin(spec, route)
    tb = spec["table"]
    ev = make_table(tb["n_cfg"], tb["n_seed"], tb["elapsed"])
    n_cfg, _, n_fid, _ = ev.shape
    b = spec["backend"]
    holder = {}

    def factory():
        holder["bb"] = make_blackbox(E, ev)
        return holder["bb"]

    kwargs = dict(
        elapsed_time_attr="elapsed",
        max_resource_attr="epochs" if b["max_resource_attr"] else None,
        seed=b["seed"],
        support_checkpointing=b["checkpointing"],
        simulator_config=E.SimulatorConfig(
            delay_on_trial_result=b["delays"][0],
            delay_complete_after_final_report=b["delays"][1],
            delay_complete_after_stop=b["delays"][2],
            delay_start=b["delays"][3],
            delay_stop=b["delays"][4],
        ),
        tuner_sleep_time=b["tuner_sleep_time"],
    )
    if b["kind"] == "user":
        backend = E.ObservedUser(blackbox=factory(), **kwargs)
    else:
        backend = E.ObservedLazy(factory=factory, **kwargs)
    mon = SimMon(ctx, spec, holder["bb"].objectives_evaluations if "bb" in holder else ev, clock)
    if "bb" not in holder:
        # lazily loaded: the monitor's table is the array handed to the blackbox once it exists
        bb = backend.blackbox
        mon.table = bb.objectives_evaluations
        mon.table_copy = mon.table.copy()
    mon.backend = backend
    backend.mon = mon
    cb = E.SimLogCallback(mon)
    config_space = {"x": E.randint(0, n_cfg - 1), "y": E.randint(0, n_cfg - 1)}
    if b["max_resource_attr"]:
        config_space["epochs"] = n_fid
    np.random.seed(spec["np_seed"])
    polls = [0]
    orig_fetch = backend.fetch_status_results

    def guarded(trial_ids):
        polls[0] += 1
        if polls[0] > MAX_POLLS * 5:
            raise ScenarioStuck("more than %d polls" % (MAX_POLLS * 5))
        return orig_fetch(trial_ids)

    backend.fetch_status_results = guarded
    tuner, err = _run_tuner(E, ctx, mon, backend, cb, config_space, spec)
    mon.finish()
    _check_file(E, ctx, mon, tuner, "epoch")
    shutil.rmtree(tuner.tuner_path, ignore_errors=True)
    return mon


# --------------------------------------------------------------------------------------------------------------
# scenario catalogues
# --------------------------------------------------------------------------------------------------------------
def _batchings(n, max_polls):
    """all ways to spread n results over at most max_polls polls (0..n per poll), the last poll showing at least one"""
    out = []
    for length in range(1, max_polls + 1):
        for comp in itertools.product(range(n + 1), repeat=length):
            if sum(comp) == n and (comp[-1] > 0 or n == 0 and length == 1):
                out.append(list(comp))
    return out


def _script(batches, lag=0, late_now=0, late_ticks=()):
    return {"batches": list(batches), "lag": lag, "late_now": late_now, "late_ticks": list(late_ticks)}


def generic_enumeration(tier):
    """single subject trial (trial 0), optionally a second worker with a filler trial: every batching of n <= 3 results
    over <= 3 polls x completion in the same poll / one poll later x {no decision, STOP at i, PAUSE at i (not resumed),
    PAUSE at i then resume with a second run of m <= 2 results} x late results of the stopped / paused worker"""
    regular, f5 = [], []
    lates = [(0, ()), (1, ()), (0, (1,)), (2, (1, 1))]
    second_runs = [_script([], 0), _script([1], 0), _script([2], 1), _script([1, 1], 0), _script([0, 2], 0)]
    for n in (1, 2, 3):
        for batches in _batchings(n, 3):
            for lag in (0, 1):
                for n_workers in (1, 2):
                    base = {"family": "generic-enumerated", "n_workers": n_workers, "n_trials": n_workers, "resume_rest": True, "stamp_mode": "tick" if (n + lag) % 2 else "counter"}
                    filler = [{"runs": [_script([1, 0, 1], 1)]}] if n_workers == 2 else []
                    # no decision
                    regular.append(dict(base, trials=[{"runs": [_script(batches, lag)]}] + filler, decisions={}, plan=["N"] * n_workers))
                    for i in range(1, n + 1):
                        for late_now, late_ticks in lates:
                            regular.append(dict(base, trials=[{"runs": [_script(batches, lag, late_now, late_ticks)]}] + filler, decisions={"0:%d" % i: [STOP]}, plan=["N"] * n_workers + ["N"], n_trials=n_workers + 1))
                            regular.append(dict(base, trials=[{"runs": [_script(batches, lag, late_now, late_ticks)]}] + filler, decisions={"0:%d" % i: [PAUSE]}, plan=["N"] * n_workers, never_resume=[0]))
                            for second in second_runs:
                                for plan_tail in (["R"], ["N", "R"]):
                                    spec = dict(
                                        base,
                                        trials=[{"runs": [_script(batches, lag, late_now, late_ticks), second]}] + filler,
                                        decisions={"0:%d" % i: [PAUSE]},
                                        plan=["N"] * n_workers + plan_tail,
                                        n_trials=n_workers + (1 if "N" in plan_tail else 0),
                                    )
                                    if late_now == 0 and not late_ticks:
                                        regular.append(spec)
                                    else:
                                        f5.append(dict(spec, family="generic-late-reports-after-pause-then-resume"))
    return regular, f5


def local_enumeration():
    """one subject trial on ScriptedLocalBackend: n <= 3 reports followed by exit 0, each of the n + 1 worker actions placed at
    one of the 6 positions (before the reads / between the two reads / after the reads) of the first two polls, in order;
    optionally a second worker with a filler trial, optionally STOP at the first report"""
    out = []
    for n in (1, 2, 3):
        for slots in itertools.combinations_with_replacement(range(6), n + 1):
            actions = [[sl, "w"] for sl in slots[:-1]] + [[slots[-1], "x"]]
            k = len(out)
            n_workers = 2 if k % 3 == 2 else 1
            filler = [{"runs": [{"actions": [[1, "w"], [4, "w"], [4, "x"]]}]}] if n_workers == 2 else []
            spec = {"family": "local-backend-interleaving", "n_workers": n_workers, "n_trials": n_workers, "trials": [{"runs": [{"actions": actions}]}] + filler, "decisions": {}, "plan": ["N"] * n_workers, "resume_rest": True}
            if k % 7 == 5:
                spec["decisions"] = {"0:1": [STOP]}
            out.append(spec)
    return out


# --------------------------------------------------------------------------------------------------------------
# resume guard (back ends driven directly)
# --------------------------------------------------------------------------------------------------------------
ROLES = ["stopped", "completed", "failed", "running", "paused"]


def run_resume_guard(E, ctx, flavour, variant):
    """trials 0..4 are brought into the states stopped / completed / failed (not on the simulator) / running / paused, then
    ``resume_trial`` is tried on each: refused unless paused, and nothing changes.  variant bit 0: poll between the stop /
    pause calls and the first attempts; bit 1: resume the paused trial before (instead of after) the refused attempts"""
    S = E.Status
    roles = [r for r in ROLES if not (flavour == "simulator" and r == "failed")]
    spec = {"family": "resume-guard", "back_end": flavour, "variant": variant, "roles": roles, "decisions": {}, "plan": [], "n_trials": len(roles), "n_workers": len(roles)}
    long_ = 40
    if flavour == "tick":
        scripts = {
            "stopped": [_script([1] + [0] * long_, 5)],
            "completed": [_script([1], 0)],
            "failed": [dict(_script([1], 0), fail=True)],
            "running": [_script([1] * long_, 5)],
            "paused": [_script([1] + [0] * long_, 5), _script([0, 1], 0)],
        }
        spec["trials"] = [{"runs": scripts[r]} for r in roles]
        ctx.begin(spec)
        mon = GenMon(ctx, spec)
        backend = E.TickBackend(mon, "counter")
        scheduled = lambda t: len(mon.runs.get(t, []))
        before_poll = lambda: None
        cleanup = lambda: None
    elif flavour == "local":
        scripts = {
            "stopped": [{"actions": [[0, "w"]]}],
            "completed": [{"actions": [[0, "w"], [1, "x"]]}],
            "failed": [{"actions": [[0, "w"], [0, "f"]]}],
            "running": [{"actions": [[3 * i, "w"] for i in range(long_)]}],
            "paused": [{"actions": [[0, "w"]]}, {"actions": [[3, "w"], [4, "x"]]}],
        }
        spec["trials"] = [{"runs": scripts[r]} for r in roles]
        ctx.begin(spec)
        mon = LocalMon(ctx, spec)
        backend = _local_backend(E, mon)
        scheduled = lambda t: backend.scheduled.get(t, 0)
        before_poll = lambda: None
        cleanup = lambda: shutil.rmtree(backend.local_path, ignore_errors=True)
    else:
        ctx.begin(spec)
        mon = None
        n_fid = 4
        el = np.zeros((2, 1, n_fid))
        el[0, 0] = [1.0, 2.0, 3.0, 4.0]  # fast: complete at the first poll
        el[1, 0] = [10.0, 20.0, 30.0, 400.0]
        backend = E.CountingUser(blackbox=make_blackbox(E, make_table(2, 1, el)), elapsed_time_attr="elapsed", seed=0)
        backend.time_keeper.start_of_time()
        scheduled = lambda t: (backend.scheduled or {}).get(t, 0)
        before_poll = lambda: backend.time_keeper.advance(12.0)
        cleanup = lambda: None
    ids, last, got, err = {}, {}, {}, None
    state_of = lambda t: getattr(backend._trial_dict.get(t), "status", None)

    def poll():
        before_poll()
        status, results = backend.fetch_status_results(sorted(ids.values()))
        for t, res in results:
            last[t] = res
            got[t] = got.get(t, 0) + 1
        return {t: st for t, (_, st) in status.items()}

    def expect_status(status, when, skip=()):
        want = {"stopped": S.stopped, "completed": S.completed, "failed": S.failed, "running": S.in_progress, "paused": S.paused}
        for r in roles:
            if r in skip:
                continue
            ctx.check(C_UNCHANGED, status[ids[r]] == want[r], when=when, role=r, trial=ids[r], status_seen_by_poll=status[ids[r]], expected=want[r])

    def attempt(role, when, refused=True):
        t = ids[role]
        before = (scheduled(t), state_of(t), got.get(t, 0))
        raised = None
        try:
            backend.resume_trial(t)
        except Exception as exc:
            raised = "%s: %s" % (type(exc).__name__, str(exc)[:120])
        after = (scheduled(t), state_of(t), got.get(t, 0))
        info = dict(when=when, role=role, trial=t, raised=raised, jobs_scheduled_and_state_before=list(before), after=list(after))
        if refused:
            ctx.check(C_REFUSED, raised is not None, **info)
            ctx.check(C_UNCHANGED, after == before, **info)
        else:
            ctx.check(C_PAUSED_OK, raised is None and after[0] == before[0] + 1 and after[1] == S.in_progress, **info)

    try:
        for r in roles:
            cfg = {"x": len(ids)} if flavour != "simulator" else {"x": 0 if r == "completed" else 1, "y": 1 if r == "completed" else 0}
            ids[r] = backend.start_trial(cfg).trial_id
        status = poll()
        ctx.check(C_UNCHANGED, all(t in last for t in ids.values()), when="first poll", what="every trial has reported once", reported=sorted(last))
        backend.stop_trial(ids["stopped"], last.get(ids["stopped"]))
        backend.pause_trial(ids["paused"], last.get(ids["paused"]))
        if variant & 1:
            expect_status(poll(), "poll after stop / pause")
        paused_resumed = False
        if variant & 2:
            attempt("paused", "right after pause", refused=False)
            paused_resumed = True
        for r in roles[:-1]:
            attempt(r, "first round")
        frozen = {r: got.get(ids[r], 0) for r in roles if r in ("stopped", "completed", "failed")}
        expect_status(poll(), "poll after the first round", skip=("paused",) if paused_resumed else ())
        if not paused_resumed:
            attempt("paused", "after a poll", refused=False)
        for r in roles[:-1]:
            attempt(r, "second round")
        attempt("paused", "resumed trial is running", refused=True)
        for _ in range(3):
            status = poll()
        # the second run of the formerly paused trial has reported and completed by now (simulator: it runs on)
        ctx.check(C_PAUSED_OK, got.get(ids["paused"], 0) >= 2, when="end", what="the resumed run delivers results", results_of_the_trial=got.get(ids["paused"], 0))
        if flavour != "simulator":
            ctx.check(C_UNCHANGED, status[ids["paused"]] == S.completed, when="end", role="resumed then completed", status_seen_by_poll=status[ids["paused"]])
            attempt("paused", "resumed trial has completed", refused=True)
        for r in roles[:-1]:
            attempt(r, "third round")
        status = poll()
        expect_status(status, "last poll", skip=("paused",))
        for r, n0 in frozen.items():
            ctx.check(C_UNCHANGED, got.get(ids[r], 0) == n0, when="end", role=r, what="no further results of a trial in a terminal state", results_before=n0, results_now=got.get(ids[r], 0))
    except Exception as exc:
        err = "%s: %s | %s" % (type(exc).__name__, exc, traceback.format_exc()[-700:])
    ctx.check(C_TERM, err is None, exception=err)
    cleanup()


def generic_random(rs, n, late_after_pause_resumed=False, busy_lag=False):
    out = []
    for _ in range(n):
        n_workers = int(rs.randint(1, 4))
        n_trials = int(rs.randint(1, 6))
        trials, decisions, never = [], {}, []
        for t in range(n_trials):
            runs = []
            level = 0
            n_runs = int(rs.randint(1, 4))
            for k in range(n_runs):
                n_polls = int(rs.randint(1, 5))
                batches = [int(x) for x in rs.randint(0, 4, size=n_polls)]
                if k == 0 and sum(batches) == 0:
                    batches[-1] = 1
                lag = int(rs.randint(0, 3))
                if busy_lag and rs.uniform() < 0.5:
                    lag = "busy"
                late_now = int(rs.randint(0, 3)) if rs.uniform() < 0.5 else 0
                late_ticks = [int(x) for x in rs.randint(0, 3, size=int(rs.randint(0, 3)))] if rs.uniform() < 0.4 else []
                total = sum(batches)
                last = k == n_runs - 1
                if not last:
                    if total == 0:
                        # nothing to decide on: the run just completes, no further run
                        runs.append(_script(batches, lag if lag != "busy" else 0))
                        break
                    at = level + int(rs.randint(1, total + 1))
                    decisions["%d:%d" % (t, at)] = [PAUSE]
                    if not late_after_pause_resumed:
                        late_now, late_ticks = 0, []
                    elif late_now == 0 and not late_ticks:
                        late_now = 1
                    runs.append(_script(batches, lag, late_now, late_ticks))
                    level = at
                else:
                    u = rs.uniform()
                    if total > 0 and u < 0.35:
                        decisions["%d:%d" % (t, level + int(rs.randint(1, total + 1)))] = [STOP]
                    elif total > 0 and u < 0.5:
                        decisions["%d:%d" % (t, level + int(rs.randint(1, total + 1)))] = [PAUSE]
                        never.append(t)
                    runs.append(_script(batches, lag, late_now, late_ticks))
            trials.append({"runs": runs})
        n_res = sum(len(tr["runs"]) - 1 for tr in trials)
        plan = ["N"] * n_trials + ["R"] * n_res
        rs.shuffle(plan)
        stop = None
        u = rs.uniform()
        if u < 0.2:
            stop = {"max_num_evaluations": int(rs.randint(1, 8))}
        elif u < 0.3:
            stop = {"max_num_trials_finished": int(rs.randint(0, 3))}
        out.append(
            {
                "family": "generic-random",
                "n_workers": n_workers,
                "n_trials": n_trials,
                "trials": trials,
                "decisions": decisions,
                "never_resume": never,
                "plan": [str(p) for p in plan],
                "resume_rest": bool(rs.uniform() < 0.8),
                "stamp_mode": "tick" if rs.uniform() < 0.5 else "counter",
                "stop": stop,
                "asynchronous": bool(rs.uniform() < 0.8),
                "wait": bool(stop is not None and rs.uniform() < 0.5),
                "start_jobs_without_delay": bool(busy_lag is False and rs.uniform() < 0.75) if not busy_lag else False,
            }
        )
    return out


INCS = [0.5, 1.0, 1.5, 2.0, 3.0]


def elapsed_column(n_fid, kind, pos, rs):
    """cumulative elapsed-time column with a defect of the given kind at position pos (0-based)"""
    inc = [INCS[int(rs.randint(len(INCS)))] for _ in range(n_fid)]
    e = list(np.cumsum(inc))
    if kind == "dip":
        if pos == 0:
            e[0] = [-0.25, 0.0, 0.005][int(rs.randint(3))]
        else:
            e[pos] = e[pos - 1] - [0.25, 1.0, 0.005][int(rs.randint(3))]
    elif kind == "plateau":
        if pos == 0:
            e[0] = 0.0
        else:
            e[pos] = e[pos - 1]
    elif kind == "deep-dip":
        # falls below everything before it (also below the value at the resume point)
        e[pos] = -1.0 if pos == 0 else min(e[:pos]) - 2.0
    elif kind == "noise":
        e = [float(x + [-1.5, -0.5, 0.0, 0.25, 1.0][int(rs.randint(5))]) for x in e]
    return [float(x) for x in e]


def sim_table(rs, n_cfg, n_seed, n_fid, offset=0):
    kinds = ["clean", "dip", "plateau", "deep-dip", "noise"]
    el = np.zeros((n_cfg, n_seed, n_fid))
    desc = []
    for c in range(n_cfg):
        for s in range(n_seed):
            kind = kinds[(c + offset) % len(kinds)]
            pos = (c // len(kinds) + s + offset) % n_fid
            el[c, s] = elapsed_column(n_fid, kind, pos, rs)
            desc.append("%d/%d:%s@%d" % (c, s, kind, pos + 1))
    return el, desc


DELAYS = [
    [0.05, 0.05, 0.05, 0.05, 0.05],
    [0.0, 0.0, 0.0, 0.0, 0.0],
    [0.5, 0.5, 0.5, 0.25, 0.125],
    [0.125, 2.0, 0.25, 1.0, 4.0],
    [0.0, 0.5, 0.0, 0.0, 2.0],
]
SLEEPS = [0.25, 1.0, 2.5, 7.0, 40.0]
THINKS = [[0.0], [0.0, 0.25], [2.0, 0.0, 0.5], [0.125]]


def sim_spec(rs, idx, family="simulator-random", final_level_resume=False, sjwd=True):
    n_fid = int(rs.randint(3, 7))
    n_cfg = int(rs.randint(5, 11))
    n_seed = int(rs.randint(1, 4))
    el, desc = sim_table(rs, n_cfg, n_seed, n_fid, offset=idx)
    ckpt = bool(idx % 3 != 2)
    mra = bool(rs.uniform() < 0.35)
    n_workers = int(rs.randint(1, 4))
    n_trials = int(rs.randint(1, 6))
    configs = [int((idx + 2 * i + int(rs.randint(0, 2))) % n_cfg) for i in range(n_trials)]
    decisions, never, max_resource = {}, [], []
    n_res = 0
    for t in range(n_trials):
        u = rs.uniform()
        levels = list(range(1, n_fid + 1))
        if mra:
            # promotion style: a run ends at its max resource, the trial is paused there and resumed with a larger one
            rungs = sorted(set(int(x) for x in rs.randint(1, n_fid + 1, size=int(rs.randint(1, 4)))))
            if rungs[-1] != n_fid and rs.uniform() < 0.7:
                rungs.append(n_fid)
            max_resource.append(rungs)
            for r in rungs[:-1]:
                decisions["%d:%d" % (t, r)] = [PAUSE]
                n_res += 1
            if u < 0.3 and rungs[-1] > 1:
                lo = rungs[-2] + 1 if len(rungs) > 1 else 1
                decisions.setdefault("%d:%d" % (t, int(rs.randint(lo, rungs[-1] + 1))), [STOP])
            continue
        max_resource.append([n_fid])
        if u < 0.25:
            continue
        if u < 0.45:
            decisions["%d:%d" % (t, int(rs.randint(1, n_fid + 1)))] = [STOP]
            continue
        # pause / resume cycles at increasing levels (never pausing at the final level), possibly a final stop
        k = int(rs.randint(1, 4))
        cand = [l for l in levels if l < n_fid]
        pl = sorted(set(int(x) for x in rs.choice(cand, size=min(k, len(cand)), replace=False)))
        for l in pl:
            decisions.setdefault("%d:%d" % (t, l), []).append(PAUSE)
            n_res += 1
        if rs.uniform() < 0.3:
            decisions.setdefault("%d:%d" % (t, int(rs.randint(pl[-1] + 1, n_fid + 1))), []).append(STOP)
        if rs.uniform() < 0.15:
            never.append(t)
    if final_level_resume:
        t = 0
        for key in [k for k in decisions if k.startswith("0:")]:
            del decisions[key]
        top = max_resource[0][-1] if mra else n_fid
        if mra:
            max_resource[0] = [top, top]
        decisions["0:%d" % top] = [PAUSE]
        never = [x for x in never if x != 0]
        n_res += 1
        ckpt = True
    plan = ["N"] * n_trials + ["R"] * n_res
    rs.shuffle(plan)
    stop = None
    u = rs.uniform()
    if u < 0.15:
        stop = {"max_num_evaluations": int(rs.randint(1, 10))}
    elif u < 0.25:
        stop = {"max_wallclock_time": float(rs.randint(2, 15))}
    elif u < 0.3:
        stop = {"max_num_trials_finished": int(rs.randint(0, 3))}
    delays = DELAYS[int(rs.randint(len(DELAYS)))]
    return {
        "family": family,
        "table": {"n_cfg": n_cfg, "n_seed": n_seed, "elapsed": el.tolist(), "columns": desc},
        "backend": {
            "kind": "user" if idx % 4 else "lazy",
            "checkpointing": ckpt,
            "seed": None if rs.uniform() < 0.5 else int(rs.randint(0, n_seed)),
            "max_resource_attr": mra,
            "delays": delays,
            "tuner_sleep_time": SLEEPS[int(rs.randint(len(SLEEPS)))],
        },
        "np_seed": int(rs.randint(0, 2**31 - 1)),
        "n_workers": n_workers,
        "n_trials": n_trials,
        "configs": configs,
        "max_resource": max_resource,
        "decisions": decisions,
        "never_resume": never,
        "plan": [str(p) for p in plan],
        "resume_rest": bool(rs.uniform() < 0.85),
        "think": {"result": THINKS[int(rs.randint(len(THINKS)))], "suggest": THINKS[int(rs.randint(len(THINKS)))]},
        "stop": stop,
        "asynchronous": bool(rs.uniform() < 0.85),
        "wait": bool(stop is not None and rs.uniform() < 0.5),
        "start_jobs_without_delay": sjwd,
    }


def sim_enumeration(tier):
    """one trial, one worker, fixed seed: for every defect kind x position of the elapsed column x
    {run through, pause at every level below the top then resume, two pause/resume cycles, stop then a new trial of the
    same configuration} x check-pointing on/off x two delay settings x two sleep times"""
    out = []
    rs = np.random.RandomState(12345)
    n_fid = 4
    kinds = ["clean", "dip", "plateau", "deep-dip", "noise"]
    cols, desc = [], []
    for kind in kinds:
        for pos in range(n_fid if kind not in ("clean", "noise") else 1):
            cols.append(elapsed_column(n_fid, kind, pos, rs))
            desc.append("%s@%d" % (kind, pos + 1))
    n_cfg = len(cols)
    el = np.array(cols).reshape(n_cfg, 1, n_fid)
    patterns = [("through", {}, 1)]
    for l in range(1, n_fid):
        patterns.append(("pause@%d" % l, {"0:%d" % l: [PAUSE]}, 1))
    patterns.append(("pause@1,pause@3", {"0:1": [PAUSE], "0:3": [PAUSE]}, 1))
    patterns.append(("pause@2,pause@3", {"0:2": [PAUSE], "0:3": [PAUSE]}, 1))
    for l in range(1, n_fid + 1):
        patterns.append(("stop@%d+new" % l, {"0:%d" % l: [STOP]}, 2))
    variants = list(itertools.product((True, False), (DELAYS[2], DELAYS[4]), (1.0, 40.0)))
    for c in range(n_cfg):
        for name, dec, n_trials in patterns:
            for ckpt, delays, sleep in variants:
                out.append(
                    {
                        "family": "simulator-enumerated",
                        "pattern": "%s/%s" % (desc[c], name),
                        "table": {"n_cfg": n_cfg, "n_seed": 1, "elapsed": el.tolist(), "columns": desc},
                        "backend": {"kind": "user", "checkpointing": ckpt, "seed": 0, "max_resource_attr": False, "delays": delays, "tuner_sleep_time": sleep},
                        "np_seed": 0,
                        "n_workers": 1,
                        "n_trials": n_trials,
                        "configs": [c] * n_trials,
                        "max_resource": [[n_fid]] * n_trials,
                        "decisions": copy.deepcopy(dec),
                        "never_resume": [],
                        "plan": ["N", "R", "R", "N"],
                        "resume_rest": True,
                        "think": {"result": [0.5, 0.0], "suggest": [0.25]},
                        "stop": None,
                    }
                )
    return out


# --------------------------------------------------------------------------------------------------------------
# entry point
# --------------------------------------------------------------------------------------------------------------
def monitor_delivery(tier="quick", seed=0):
    E = _env()
    thorough = tier != "quick"
    rs = np.random.RandomState(seed)
    ctx = Ctx(seed, tier)
    clock = E.Clock()
    # the Tuner writes its metadata / results files here (removed at the end); memory file system when there is one
    tmp_base = [d for d in ("/dev/shm", "/var/tmp") if os.path.isdir(d) and os.access(d, os.W_OK)]
    tmp_root = tempfile.mkdtemp(prefix="c02_native_", dir=tmp_base[0] if tmp_base else None)
    old_env = os.environ.get("SYNETUNE_FOLDER")
    os.environ["SYNETUNE_FOLDER"] = tmp_root
    old_time = E.tk_mod.time
    E.tk_mod.time = clock
    np_state = np.random.get_state()
    old_disable = logging.root.manager.disable
    logging.disable(logging.CRITICAL)
    n = {}
    try:
        # (a1) generic poll logic under the real Tuner
        regular, f5 = generic_enumeration(tier)
        if thorough:
            regular = regular[seed % 3 :: 3]
            f5 = f5[seed % 24 :: 24]
        else:
            regular = regular[seed % 9 :: 9]
            f5 = f5[seed % 90 :: 90]
        for spec in regular:
            run_generic(E, ctx, spec)
        for spec in f5:
            run_generic(E, ctx, spec, route=C_F5)
        n["generic-enumerated"] = len(regular)
        n["generic-random"] = 700 if thorough else 220
        for spec in generic_random(rs, n["generic-random"]):
            run_generic(E, ctx, spec)
        # the same catalogue at the back-end interface, every trial polled at every tick (no Tuner)
        direct = [dict(spec, family="generic-direct-poll-all-trials") for spec in regular[::3]]
        direct += [dict(spec, family="generic-direct-poll-all-trials") for spec in generic_random(rs, 200 if thorough else 60)]
        for spec in direct:
            run_generic_direct(E, ctx, spec)
        n["generic-direct-poll-all-trials"] = len(direct)
        n["late-after-pause-then-resume"] = len(f5) + (40 if thorough else 12)
        for spec in generic_random(rs, 40 if thorough else 12, late_after_pause_resumed=True):
            spec["family"] = "generic-late-reports-after-pause-then-resume"
            run_generic(E, ctx, spec, route=C_F5)
        n["completion-between-poll-and-busy-query"] = 40 if thorough else 12
        for spec in generic_random(rs, n["completion-between-poll-and-busy-query"], busy_lag=True):
            spec["family"] = "generic-start-jobs-without-delay-off-completion-between-poll-and-busy-query"
            run_generic(E, ctx, spec, route=C_F9)
        # (a3) the real LocalBackend with a worker played by the monitor: placement of the last writes / exit relative to the
        # two reads of a poll
        local = local_enumeration()
        if not thorough:
            local = local[seed % 3 :: 3]
        for spec in local:
            run_local(E, ctx, spec)
            run_generic_direct(E, ctx, dict(spec, family="local-backend-interleaving-direct"), local=True)
        n["local-backend-interleaving(tuner+direct)"] = 2 * len(local)
        # (c) resume guard
        for flavour in ("tick", "local", "simulator"):
            for variant in range(4):
                run_resume_guard(E, ctx, flavour, variant)
        n["resume-guard"] = 12
        # (a2) + (b) simulator back end under the real Tuner
        enum = sim_enumeration(tier)
        enum = enum[seed % 2 :: 2] if thorough else enum[seed % 8 :: 8]
        for spec in enum:
            run_sim(E, ctx, spec, clock)
        n["simulator-enumerated"] = len(enum)
        n["simulator-random"] = 1100 if thorough else 260
        for i in range(n["simulator-random"]):
            run_sim(E, ctx, sim_spec(rs, i + 7 * seed), clock)
        n["resume-after-pause-at-final-level"] = 16 if thorough else 6
        for i in range(n["resume-after-pause-at-final-level"]):
            run_sim(E, ctx, sim_spec(rs, i + seed, family="simulator-resume-after-pause-at-final-level", final_level_resume=True), clock, route=C_FINAL)
        # start_jobs_without_delay=False on the simulator: a job counts as busy only between its (delayed) start event and
        # its completion event, both of which are processed inside other back-end calls
        n["simulator-start-jobs-without-delay-off"] = 16 if thorough else 6
        for i in range(n["simulator-start-jobs-without-delay-off"]):
            run_sim(E, ctx, sim_spec(rs, i + seed, family="simulator-start-jobs-without-delay-off", sjwd=False), clock, route=C_F9)
    finally:
        E.tk_mod.time = old_time
        np.random.set_state(np_state)
        logging.disable(old_disable)
        if old_env is None:
            os.environ.pop("SYNETUNE_FOLDER", None)
        else:
            os.environ["SYNETUNE_FOLDER"] = old_env
        shutil.rmtree(tmp_root, ignore_errors=True)
    empty = [c for c in CLAUSES if ctx.counts[c] == 0]
    if empty:
        raise RuntimeError("clauses never exercised (an empty check must not look green): %s" % empty)
    summary = (
        "real Tuner.run + scripted scheduler (CONTINUE/PAUSE/STOP per (trial, level), resume via suggest), <= 3 workers, <= 5 trials, "
        "<= 3 runs per trial; generic poll back end: all batchings of <= 3 results over <= 3 polls x completion 0/1 polls later x "
        "decision at every position x <= 4 late results (enumerated), random: <= 4 polls x 0..3 results, completion 0..2 polls later; "
        "simulator (UserBlackboxBackend / lazy _BlackboxSimulatorBackend): tables <= 10 configs x <= 3 seeds x <= 6 levels with "
        "dip / plateau / deep dip / noise at every position, checkpointing on/off, max_resource_attr on/off, 5 delay settings, "
        "5 sleep times, hand-driven real-time clock; scenarios: %s; checks per clause: %s; violations per clause: %s"
        % (json.dumps(n, sort_keys=True), json.dumps(ctx.counts, sort_keys=True), json.dumps(ctx.total_violations, sort_keys=True))
    )
    return {
        "evaluations": ctx.evaluations,
        "distinct": len(ctx.scenarios),
        "clauses": list(CLAUSES),
        "violations": ctx.violations,
        "samples": ctx.samples[:4],
        "summary": summary,
    }
