"""Shared contracts on the searcher-side bookkeeping of pending / failed trials
(TuningJobState, ModelStateTransformer, GP searchers) -- used by C13 and C14."""
from pyvc.spec import *

BO = "syne_tune.optimizer.schedulers.searchers.bayesopt"
TJS = BO + ".datatypes.tuning_job_state"
COMMON = BO + ".datatypes.common"
MST = BO + ".models.model_transformer"
GPMF = "syne_tune.optimizer.schedulers.searchers.gp_multifidelity_searcher"
MBS = "syne_tune.optimizer.schedulers.searchers.model_based_searcher"

declare_class("PendingEvaluation", COMMON + ":PendingEvaluation", dict(_trial_id=Str, _resource=Opt(Int)), builder="pending")

declare_class(
    "TuningJobState",
    TJS + ":TuningJobState",
    dict(pending_evaluations=List(Obj("PendingEvaluation")), failed_trials=List(Str), config_for_trial=Map(Str, Rec(x=Int))),
    inv="tjs_inv",
)


def same_pending(a, b):
    return a._trial_id == b._trial_id and a._resource == b._resource


def tjs_inv(st):
    p = st.pending_evaluations
    n = len(p)
    return {
        # a (trial, level) pair is pending at most once
        "pending-distinct": forall(range(0, n), lambda i: forall(range(0, n), lambda j: implies(i < j, not same_pending(p[i], p[j])))),
    }


def kept_others(new, old, trial_id):
    """every pending entry of another trial is still there; nothing new appeared; no entry of trial_id is left"""
    return {
        "trial-has-no-pending-left": forall(range(0, len(new)), lambda j: new[j]._trial_id != trial_id),
        "others-kept": forall(range(0, len(old)), lambda i: implies(old[i]._trial_id != trial_id, exists(range(0, len(new)), lambda j: same_pending(new[j], old[i])))),
        "nothing-invented": forall(range(0, len(new)), lambda j: exists(range(0, len(old)), lambda i: same_pending(new[j], old[i]))),
    }


@contract(TJS + ":TuningJobState.remove_pending", props=("C13", "C14"))
class TJS_remove_pending:
    params = dict(self=Obj("TuningJobState"), trial_id=Str, resource=Opt(Int))
    unbounded = False  # the shifted-list frame clause is not discharged by z3/cvc5 within the budget: bounded only
    shapes = [{"*": k} for k in range(0, 5)]

    def requires(s):
        return True

    def ensures(old, s, result):
        p0 = old.self.pending_evaluations
        p1 = s.self.pending_evaluations
        was = exists(range(0, len(p0)), lambda i: p0[i]._trial_id == old.trial_id and p0[i]._resource == old.resource)
        return {
            "result": result == was,
            "gone": forall(range(0, len(p1)), lambda j: not (p1[j]._trial_id == old.trial_id and p1[j]._resource == old.resource)),
            "others-kept": forall(range(0, len(p0)), lambda i: implies(not (p0[i]._trial_id == old.trial_id and p0[i]._resource == old.resource), exists(range(0, len(p1)), lambda j: same_pending(p1[j], p0[i])))),
            "nothing-invented": forall(range(0, len(p1)), lambda j: exists(range(0, len(p0)), lambda i: same_pending(p1[j], p0[i]))),
            "failed-unchanged": unchanged(s.self.failed_trials, old.self.failed_trials),
        }


@contract(TJS + ":TuningJobState.append_pending", props=("C14",))
class TJS_append_pending:
    params = dict(self=Obj("TuningJobState"), trial_id=Str, config=Opt(Rec(x=Int)), resource=Opt(Int))
    shapes = [{"*": k} for k in range(0, 4)]
    raises = {"AssertionError": "already_pending_or_unknown"}

    def requires(s):
        return True

    def already_pending_or_unknown(old):
        p0 = old.self.pending_evaluations
        return exists(range(0, len(p0)), lambda i: p0[i]._trial_id == old.trial_id and p0[i]._resource == old.resource) or (old.config is None and old.trial_id not in old.self.config_for_trial)

    def ensures(old, s, result):
        p0 = old.self.pending_evaluations
        p1 = s.self.pending_evaluations
        n = len(p0)
        return {
            "appended": len(p1) == n + 1 and p1[n]._trial_id == old.trial_id and p1[n]._resource == old.resource,
            "others-kept-in-place": forall(range(0, n), lambda i: same_pending(p1[i], p0[i])),
        }


declare_class("ModelStateTransformer", MST + ":ModelStateTransformer", dict(_state=Obj("TuningJobState"), _predictor=Opt(Int)))
declare_class("GPMFSearcher", GPMF + ":GPMultiFidelitySearcher", dict(state_transformer=Obj("ModelStateTransformer"), _resource_attr=Lit("epoch")))


@contract(GPMF + ":GPMultiFidelitySearcher.cleanup_pending", props=("C13", "C14"))
class GPMF_cleanup_pending:
    """all pending entries of the trial disappear, the pending entries of every other trial stay"""

    params = dict(self=Obj("GPMFSearcher"), trial_id=Str)
    shapes = [{"*": k} for k in range(0, 4)]

    def requires(s):
        return True

    def ensures(old, s, result):
        out = kept_others(s.self.state_transformer._state.pending_evaluations, old.self.state_transformer._state.pending_evaluations, old.trial_id)
        out["failed-unchanged"] = unchanged(s.self.state_transformer._state.failed_trials, old.self.state_transformer._state.failed_trials)
        return out


@contract(GPMF + ":GPMultiFidelitySearcher.evaluation_failed", props=("C13",))
class GPMF_evaluation_failed:
    params = dict(self=Obj("GPMFSearcher"), trial_id=Str)
    shapes = [{"*": k} for k in range(0, 4)]

    def requires(s):
        return True

    def ensures(old, s, result):
        st0 = old.self.state_transformer._state
        st1 = s.self.state_transformer._state
        out = kept_others(st1.pending_evaluations, st0.pending_evaluations, old.trial_id)
        out["marked-failed"] = old.trial_id in st1.failed_trials
        out["failed-only-grows"] = forall(range(0, len(st0.failed_trials)), lambda i: st0.failed_trials[i] in st1.failed_trials)
        return out
