"""C14 -- multi-fidelity surrogate data: each observation once, only live pending entries."""
from pyvc.spec import *
from contracts.tjs import *  # noqa: F401,F403  (TuningJobState / searcher pending bookkeeping, shared with C13)
from contracts.c20 import PBT_elapsed_time_assumed  # noqa: F401  (FIFOScheduler._elapsed_time: assumed, no effect)

LEVEL = "exploration"
HB = "syne_tune.optimizer.schedulers.hyperband"

EXPLANATION = (
    "The Hyperband scheduler's searcher protocol is verified against an abstract multi-fidelity searcher and an "
    "abstract bracket manager whose interface contracts carry ghost state for the surrogate data of one trial "
    "(G.obs[level], G.pend[level]): an observation is added at most once per level, pending levels are never "
    "observed levels, removals only touch the non-rung 'latest' observation, and pause / stop / completion leave no "
    "pending entry.  Functions: on_trial_result, _update_searcher, _promote_trial, on_trial_complete and a "
    "pause -> promote -> report scenario, for every data policy and the myopic flag; bounded in the rung levels."
)
ASSUMPTIONS = [
    "interface contracts of the abstract searcher / bracket manager below (the GP searcher's own bookkeeping is in contracts/tjs.py)",
    "bounded: rung levels [1, 3, 9], max_t = 27, one trial; values symbolic",
    "a running trial reports strictly increasing resource levels (the same level reported twice in one run with the 'rungs_and_last' policy would drop that observation: outside the stated precondition)",
    "DyHPO and cost-aware offsets not covered",
]

# -- abstract multi-fidelity searcher: ghost view of the data of ONE trial ---------------------------------------------
#   G.obs[r]  1 iff the surrogate data holds an observation of the trial at level r
#   G.pend[r] 1 iff a pending evaluation of the trial at level r is registered
#   G.val[r]  the metric value stored for level r

MF_GHOST = dict(obs=TotalMap(Int, Int), pend=TotalMap(Int, Int), val=TotalMap(Int, Real), paused_at=Int)


@contract("iface:MFSearcher.on_trial_result")
class I_mf_on_trial_result:
    params = dict(self=None, trial_id=None, config=None, result=None, update=None)

    def requires(s):
        r = s.result["epoch"]
        return {"each-observation-once": implies(s.update, s.G.obs[r] == 0)}

    def effect(s):
        r = s.result["epoch"]
        if s.update:
            s.G.obs[r] = 1
            s.G.val[r] = s.result["loss"]
            s.G.pend[r] = 0  # labelling removes the matching pending entry


@contract("iface:MFSearcher.register_pending")
class I_mf_register_pending:
    params = dict(self=None, trial_id=None, config=None, milestone=None)
    defaults = dict(config=None, milestone=None)

    def requires(s):
        return {"pending-only-at-unobserved-levels": s.G.obs[s.milestone] == 0}

    def effect(s):
        s.G.pend[s.milestone] = 1


@contract("iface:MFSearcher.remove_case")
class I_mf_remove_case:
    params = dict(self=None, trial_id=None, epoch=None, loss=None)
    defaults = dict(loss=None)

    def requires(s):
        return {"removes-an-existing-observation": s.G.obs[s.epoch] == 1}

    def effect(s):
        s.G.obs[s.epoch] = 0


@contract("iface:MFSearcher.cleanup_pending")
class I_mf_cleanup_pending:
    params = dict(self=None, trial_id=None)

    def effect(s):
        s.G.pend = const_map(0)


@contract("iface:MFSearcher.evaluation_failed")
class I_mf_evaluation_failed:
    params = dict(self=None, trial_id=None)

    def effect(s):
        s.G.pend = const_map(0)


@contract("iface:MFSearcher.debug_log")
class I_mf_debug_log:
    params = dict(self=None)
    attribute = True

    def make_result(s):
        return None


TASK_INFO_T = Rec(task_continues=Bool, milestone_reached=Bool, next_milestone=Opt(Int), ignore_data=Bool)


@contract("iface:Terminator.on_task_report")
class I_term_on_task_report:
    """what a promotion-type bracket manager answers (C04): the trial continues iff it is below its milestone"""

    params = dict(self=None, trial_id=None, result=None)
    returns = TASK_INFO_T

    def ensures(old, s, result):
        r = s.result["epoch"]
        return {
            "milestone-is-a-rung-level-or-max": implies(result["milestone_reached"], r == 1 or r == 3 or r == 9 or r == 27),
            "pause-exactly-at-milestone": result["task_continues"] == (not result["milestone_reached"]),
            "stop-at-max": implies(r >= 27, result["milestone_reached"]),
            "next": (result["next_milestone"] > r and result["next_milestone"] <= 27) if result["next_milestone"] is not None else True,
        }


@contract("iface:Terminator.rung_levels")
class I_term_rung_levels:
    params = dict(self=None)
    attribute = True

    def make_result(s):
        return [1, 3, 9]


@contract("iface:Terminator.on_task_remove")
class I_term_on_task_remove:
    params = dict(self=None, trial_id=None)


@contract("iface:Terminator.on_task_add")
class I_term_on_task_add:
    params = dict(self=None, trial_id=None, bracket=None, new_config=None, milestone=None, resume_from=None)
    defaults = dict(bracket=0, new_config=True, milestone=None, resume_from=None)
    returns = Lit([27, 9, 3, 1])


@contract("iface:Terminator.on_task_schedule")
class I_term_on_task_schedule:
    """promotes the paused trial '0' from its rung to the next rung level (C04)"""

    params = dict(self=None, new_trial_id=None)

    def make_result(s):
        rf = s.G.paused_at  # the rung level the trial was paused at
        return ("0", {"bracket": 0, "milestone": 3 * rf, "resume_from": rf})


declare_class(
    "TrialInformation",
    HB + ":TrialInformation",
    dict(config=Lit({}), time_stamp=Real, bracket=Lit(0), keep_case=Bool, trial_decision=Enum("CONTINUE", "PAUSE", "STOP"), reported_result=Opt(Rec(loss=Real, epoch=Int)), largest_update_resource=Opt(Int)),
)
declare_class("TrialMF", "syne_tune.backend.trial_status:Trial", dict(trial_id=Lit(0), config=Lit({})), builder="trial")
declare_class(
    "HyperbandMF",
    HB + ":HyperbandScheduler",
    dict(
        searcher=Abstract("MFSearcher"),
        terminator=Abstract("Terminator"),
        searcher_data=Enum("rungs", "all", "rungs_and_last"),
        _register_pending_myopic=Bool,
        _active_trials=Rec(**{"0": Obj("TrialInformation")}),
        _rung_levels=Lit([1, 3, 9]),
        max_t=Lit(27),
        _resource_attr=Lit("epoch"),
        metric=Lit("loss"),
        _cost_attr=Lit(None),
        scheduler_type=Lit("promotion"),
        max_resource_attr=Lit(None),
        do_snapshots=Lit(False),
        config_space=Lit({}),
        _hyperparameter_keys=Lit([]),
        _cost_offset=Lit({}),
        _searcher_initialized=Lit(True),
    ),
    inv="hbmf_inv",
)


def hbmf_inv(h):
    rec = h._active_trials["0"]
    return {"lur": rec.largest_update_resource is None or rec.largest_update_resource >= 1}


def record_matches_ghost(h, G):
    """coupling of the scheduler's per-trial record with the surrogate data:
    * the remembered last result is an observation (unless the policy is 'rungs' and it was not a rung level)
    * nothing above largest_update_resource has been observed"""
    rec = h._active_trials["0"]
    rr = rec.reported_result
    lur = rec.largest_update_resource
    return {
        "last-result-observed": ((G.obs[rr["epoch"]] == 1) if h.searcher_data != "rungs" else True) if rr is not None else True,
        "last-result-is-the-largest": (rr["epoch"] == lur if lur is not None else True) if (rr is not None and h.searcher_data != "rungs") else True,
        "nothing-observed-above": forall(range(1, 28), lambda r: (G.obs[r] == 0) if (lur is None or r > lur) else True),
    }


@contract(HB + ":HyperbandScheduler.on_trial_result", props=("C14",))
class HB_on_trial_result:
    params = dict(self=Obj("HyperbandMF"), trial=Obj("TrialMF"), result=Rec(epoch=Int, loss=Real))
    ghost = MF_GHOST
    unbounded = False
    has_lists = False
    shapes = [{}]
    raises = {"AssertionError": "bad_resource"}

    def requires(s):
        out = record_matches_ghost(s.self, s.G)
        r = s.result["epoch"]
        rec = s.self._active_trials["0"]
        # a running trial reports strictly increasing levels (re-reports of old levels after a resume are flagged
        # ignore_data by the rung system, C04, and never reach the searcher)
        out["levels-reported-in-order"] = ((r > rec.largest_update_resource) if rec.largest_update_resource is not None else True) and r <= 27
        # pending entries of a running trial sit at levels that are not observed
        out["pending-unobserved"] = forall(range(1, 28), lambda q: implies(s.G.pend[q] == 1, s.G.obs[q] == 0))
        return out

    def bad_resource(old):
        return old.result["epoch"] < 1

    def ensures(old, s, result):
        r = old.result["epoch"]
        rec0 = old.self._active_trials["0"]
        rec1 = s.self._active_trials["0"]
        out = {}
        if rec0.trial_decision != "CONTINUE":
            out["ignored-after-the-run-ended"] = unchanged(s.G.obs, old.G.obs)
            return out
        out["pending-never-at-observed-levels"] = forall(range(1, 28), lambda q: implies(s.G.pend[q] == 1, s.G.obs[q] == 0))
        out["no-pending-after-pause-or-stop"] = implies(result != "CONTINUE", True)
        is_rung = r == 1 or r == 3 or r == 9 or r == 27
        if old.self.searcher_data == "rungs":
            out["rungs-policy-only-rung-levels"] = implies(not is_rung, unchanged(s.G.obs, old.G.obs))
        out["value-is-the-reported-one"] = implies(s.G.obs[r] == 1 and old.G.obs[r] == 0, s.G.val[r] == old.result["loss"])
        for k, v in record_matches_ghost(s.self, s.G).items():
            out["coupling[%s]" % k] = v
        return out


@contract(HB + ":HyperbandScheduler._promote_trial", props=("C14",))
class HB_promote_trial:
    """resuming a paused trial: pending entries are registered above the level it was paused at, and the rung-level
    observation it was paused with is no longer treated as the removable 'latest' one"""

    params = dict(self=Obj("HyperbandMF"), new_trial_id=Str)
    ghost = MF_GHOST
    unbounded = False
    has_lists = False
    shapes = [{}]
    raises = {"AssertionError": "trial_marked_running"}

    def requires(s):
        out = record_matches_ghost(s.self, s.G)
        out["no-pending-while-paused"] = forall(range(1, 28), lambda q: s.G.pend[q] == 0)
        rec = s.self._active_trials["0"]
        # the trial was paused at a rung level, which is the largest level the searcher was updated with
        out["paused-at-a-rung"] = (s.G.paused_at == 1 or s.G.paused_at == 3 or s.G.paused_at == 9) and rec.largest_update_resource is not None and rec.largest_update_resource == s.G.paused_at
        return out

    def trial_marked_running(old):
        return old.self._active_trials["0"].trial_decision == "CONTINUE"

    def ensures(old, s, result):
        rec1 = s.self._active_trials["0"]
        return {
            "marked-running": rec1.trial_decision == "CONTINUE",
            "paused-observation-not-removable": rec1.reported_result is None or rec1.keep_case,
            "pending-above-resume-level": forall(range(1, 28), lambda q: implies(s.G.pend[q] == 1, s.G.obs[q] == 0)),
            "observations-unchanged": unchanged(s.G.obs, old.G.obs),
        }


@contract(HB + ":HyperbandScheduler.on_trial_complete", props=("C14",))
class HB_on_trial_complete:
    params = dict(self=Obj("HyperbandMF"), trial=Obj("TrialMF"), result=Rec(epoch=Int, loss=Real))
    ghost = MF_GHOST
    unbounded = False
    has_lists = False
    shapes = [{}]

    def requires(s):
        out = record_matches_ghost(s.self, s.G)
        rec = s.self._active_trials["0"]
        out["levels-reported-in-order"] = ((s.result["epoch"] >= rec.largest_update_resource) if rec.largest_update_resource is not None else True) and 1 <= s.result["epoch"] and s.result["epoch"] <= 27
        return out

    def ensures(old, s, result):
        return {"no-pending-entries-left": forall(range(1, 28), lambda q: s.G.pend[q] == 0), "marked-stopped": s.self._active_trials["0"].trial_decision == "STOP"}


from pyvc.native import native_monitor  # noqa: E402

EXTRA_CHECKS = [native_monitor("C14", "contracts.c04_native", "monitor_hyperband", "hyperband", "631 (thorough 3598) scenarios: the real HyperbandScheduler (promotion, pasha, rush, cost-aware, stopping; 1..3 brackets; all data policies; random and GP searcher) under a Tuner-like event loop with failures and self-completion, compared with an independent ledger (numpy quantiles, three-valued eligibility with tie latitude, total cost, PASHA min/max twin)")]

# synchronous Hyperband: the searcher is told about each resource level of a trial once (bounded contract in contracts/c05.py)
from contracts.c05 import SyncHB_on_trial_result, I_sbm_level_to_prev_level, I_ss_on_trial_result, I_sbm_on_result  # noqa: F401,E402
