"""C17 -- the results log and the reported best configuration reflect what happened."""
from pyvc.spec import *
from contracts.iface import *
from contracts.c01 import Tuner_update_running_trials  # noqa: F401  (the callback is invoked once per delivered result, in order)

LEVEL = "proof"
RCB = "syne_tune.results_callback"
TSTAT = "syne_tune.tuning_status"

EXPLANATION = (
    "StoreResultsCallback.on_trial_result is proved (log of any length) to append exactly one row carrying the result's "
    "values, decision, status, trial id, the full configuration and a tuner time stamp, leaving earlier rows and the "
    "result argument untouched.  MetricsStatistics.add and print_best_metric_found are checked in bounded symbolic mode "
    "(NaN values and trials without values included).  CSV round trip and ExperimentResult (pandas) are not covered."
)
ASSUMPTIONS = [
    "A-REAL with explicit NaN flag for metric values; numpy.inf a constant above all finite values",
    "metric / config key names fixed literals",
    "pandas CSV writing / reading and ExperimentResult.best_config are outside the verified subset (not claimed)",
]

ROW_T = Rec(epoch=Int, loss=Real, st_decision=Str, st_status=Str, trial_id=Int, config_lr=Real, config_x=Int, st_tuner_time=Real)

declare_class("TrialCfg", "syne_tune.backend.trial_status:Trial", dict(trial_id=Int, config=Rec(lr=Real, x=Int)), builder="trialcfg")
declare_class(
    "StoreResultsCallback",
    RCB + ":StoreResultsCallback",
    dict(results=List(ROW_T), csv_file=Opt(Str), save_results_at_frequency=Abstract("RegularCallback"), add_wallclock_time=Bool, _extra_results_composer=Lit(None), _start_time_stamp=Real, _tuner=Lit(None)),
)


@contract("iface:RegularCallback.__call__")
class I_regular_callback:
    params = dict(self=None)


@contract(RCB + ":StoreResultsCallback.on_trial_result", props=("C17", "C02"))
class Store_on_trial_result:
    params = dict(self=Obj("StoreResultsCallback"), trial=Obj("TrialCfg"), status=STATUS_T, result=Rec(epoch=Int, loss=Real), decision=DECISION_T)
    ghost = GHOST
    shapes = [{"*": k} for k in range(0, 3)]

    def requires(s):
        return True

    def ensures(old, s, result):
        r0 = old.self.results
        r1 = s.self.results
        n = len(r0)
        row = r1[n]
        return {
            "exactly-one-row": len(r1) == n + 1,
            "earlier-rows-untouched": forall(range(0, n), lambda i: unchanged(r1[i], r0[i])),
            "result-values": row["epoch"] == old.result["epoch"] and row["loss"] == old.result["loss"],
            "decision-status-trial": row["st_decision"] == old.decision and row["st_status"] == old.status and row["trial_id"] == old.trial.trial_id,
            "full-configuration": row["config_lr"] == old.trial.config["lr"] and row["config_x"] == old.trial.config["x"],
            "tuner-time-stamp": "st_tuner_time" in row,
            "argument-not-mutated": unchanged(s.result, old.result),
        }


# -- MetricsStatistics.add -------------------------------------------------------------------------------------

declare_class(
    "MetricsStatistics",
    TSTAT + ":MetricsStatistics",
    dict(
        metric_names=List(Str, concrete_len=0),
        count=Int,
        min_metrics=Rec(loss=Real).optional("loss"),
        max_metrics=Rec(loss=Real).optional("loss"),
        sum_metrics=Rec(loss=Real).optional("loss"),
        last_metrics=Lit({}),
        is_numeric=Rec(loss=Lit(True)).optional("loss"),
    ),
)


@contract(TSTAT + ":MetricsStatistics.add", props=("C17", "C15"))
class Stats_add:
    """count grows by one; for a numeric value v: min' = min(min, v), max' = max(max, v), sum' = sum + v;
    a NaN value never replaces a recorded minimum / maximum"""

    params = dict(self=Obj("MetricsStatistics"), metrics=Rec(loss=NanRealT))
    unbounded = False
    has_lists = False
    shapes = [{}]

    def requires(s):
        st = s.self
        both = ("loss" in st.min_metrics) == ("loss" in st.max_metrics) and ("loss" in st.min_metrics) == ("loss" in st.sum_metrics) and ("loss" in st.min_metrics) == ("loss" in st.is_numeric)
        bounded = (-infinity() < s.metrics["loss"] and s.metrics["loss"] < infinity()) if not is_nan(s.metrics["loss"]) else True
        return {"consistent": both and st.count >= 0, "finite-values": bounded, "min<=max": (st.min_metrics["loss"] <= st.max_metrics["loss"]) if ("loss" in st.min_metrics and "loss" in st.max_metrics) else True}

    def ensures(old, s, result):
        v = old.metrics["loss"]
        out = {"count": s.self.count == old.self.count + 1, "last": unchanged(s.self.last_metrics, old.metrics)}
        had = "loss" in old.self.min_metrics
        if is_nan(v):
            if had:
                out["nan-keeps-min-max"] = s.self.min_metrics["loss"] == old.self.min_metrics["loss"] and s.self.max_metrics["loss"] == old.self.max_metrics["loss"]
            return out
        if had:
            m0 = old.self.min_metrics["loss"]
            x0 = old.self.max_metrics["loss"]
            out["min"] = s.self.min_metrics["loss"] == (v if v < m0 else m0)
            out["max"] = s.self.max_metrics["loss"] == (v if v > x0 else x0)
            out["sum"] = s.self.sum_metrics["loss"] == old.self.sum_metrics["loss"] + v
        else:
            out["first-value"] = s.self.min_metrics["loss"] == v and s.self.max_metrics["loss"] == v and s.self.sum_metrics["loss"] == v
        return out


# -- print_best_metric_found ---------------------------------------------------------------------------------------

declare_class("TrialStats", TSTAT + ":MetricsStatistics", dict(min_metrics=Rec(loss=Real).optional("loss"), max_metrics=Rec(loss=Real).optional("loss")), builder="ns")
declare_class("OverallStats", TSTAT + ":MetricsStatistics", dict(count=Int), builder="ns")
declare_class("TuningStatusBest", TSTAT + ":TuningStatus", dict(overall_metric_statistics=Obj("OverallStats"), trial_metric_statistics=ADict(Int, Obj("TrialStats"))), builder="status_best")


@contract(TSTAT + ":print_best_metric_found", props=("C17", "C15"))
class Print_best:
    """the returned trial attains the optimum (per mode) of the per-trial optima, hence of all values handed
    to the loop; a trial without any value of the metric is never reported as best when another trial has one"""

    params = dict(tuning_status=Obj("TuningStatusBest"), metric_names=Lit(["loss"]), mode=Opt(Enum("min", "max")))
    unbounded = False
    shapes = [{"tuning_status.trial_metric_statistics": n} for n in (1, 2, 3)]

    def requires(s):
        vs = list(s.tuning_status.trial_metric_statistics.values())
        return {
            "present-together": forall(range(0, len(vs)), lambda i: ("loss" in vs[i].min_metrics) == ("loss" in vs[i].max_metrics)),
            "finite": forall(range(0, len(vs)), lambda i: (-infinity() < vs[i].min_metrics["loss"] and vs[i].max_metrics["loss"] < infinity() and vs[i].min_metrics["loss"] <= vs[i].max_metrics["loss"]) if ("loss" in vs[i].min_metrics and "loss" in vs[i].max_metrics) else True),
            "count": s.tuning_status.overall_metric_statistics.count >= 0,
        }

    def ensures(old, s, result):
        if old.tuning_status.overall_metric_statistics.count == 0:
            return {"none-without-results": result is None}
        ks = list(old.tuning_status.trial_metric_statistics.keys())
        vs = list(old.tuning_status.trial_metric_statistics.values())
        is_min = old.mode is None or old.mode == "min"
        has = [("loss" in v.min_metrics) for v in vs]
        anyone = exists(range(0, len(vs)), lambda i: has[i])
        if result is None:
            return {"a-trial-is-reported-once-there-are-results": False}
        out = {"a-trial-is-reported-once-there-are-results": True, "a-known-trial": exists(range(0, len(ks)), lambda i: ks[i] == result[0])}
        if anyone:
            out["best-trial-has-the-value"] = exists(range(0, len(ks)), lambda i: (ks[i] == result[0] and result[1] == (vs[i].min_metrics["loss"] if is_min else vs[i].max_metrics["loss"])) if has[i] else False)
            out["optimal"] = forall(range(0, len(ks)), lambda i: (result[1] <= vs[i].min_metrics["loss"] if is_min else result[1] >= vs[i].max_metrics["loss"]) if has[i] else True)
        return out


# -- two results of one trial whose configuration changed in between (resumed trial) ---------------------------

try:
    from syne_tune.results_callback import StoreResultsCallback
    from syne_tune.backend.trial_status import Trial
except ImportError:
    pass


def scenario_log(tid, cfg1, cfg2, loss1, loss2):
    cb = StoreResultsCallback(add_wallclock_time=False)
    cb.save_results_at_frequency = lambda: None
    t1 = Trial(trial_id=tid, config={"lr": cfg1, "epochs": 1}, creation_time=None)
    cb.on_trial_result(t1, "InProgress", {"epoch": 1, "loss": loss1}, "PAUSE")
    # the trial is resumed with a changed configuration and reports again
    t2 = Trial(trial_id=tid, config={"lr": cfg2, "epochs": 3}, creation_time=None)
    cb.on_trial_result(t2, "InProgress", {"epoch": 2, "loss": loss2}, "CONTINUE")
    rows = cb.results
    check("one-row-per-result", len(rows) == 2)
    check("rows-in-delivery-order", rows[0]["epoch"] == 1 and rows[1]["epoch"] == 2 and rows[0]["loss"] == loss1 and rows[1]["loss"] == loss2)
    check("row-carries-the-configuration-at-delivery", rows[0]["config_lr"] == cfg1 and rows[0]["config_epochs"] == 1 and rows[1]["config_lr"] == cfg2 and rows[1]["config_epochs"] == 3)
    check("decision-and-trial-id", rows[0]["st_decision"] == "PAUSE" and rows[1]["st_decision"] == "CONTINUE" and rows[0]["trial_id"] == tid and rows[1]["trial_id"] == tid)
    return True


@contract("contracts.c17:scenario_log", props=("C17",))
class ScenarioLog:
    label = "StoreResultsCallback[changed-config scenario]"
    params = dict(tid=Int, cfg1=Real, cfg2=Real, loss1=Real, loss2=Real)
    unbounded = False
    has_lists = False
    shapes = [{}]

    def requires(s):
        return True

    def ensures(old, s, result):
        return {"completed": result == True}  # noqa: E712


from pyvc.native import native_monitor  # noqa: E402

EXTRA_CHECKS = [
    native_monitor(
        "C17",
        "contracts.c17_native",
        "monitor_results",
        "results",
        "582 (thorough 2679) scenarios: real Tuner runs on an in-memory back end (17 structural shapes x metric/mode declarations x workers x burst x update interval, random scripts, shipped schedulers) and StoreResultsCallback / TuningStatus / load_experiment on every small table over {low, high, NaN, missing}; reference computed only from what was handed to the loop",
    )
]
