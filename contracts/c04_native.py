"""C04 + C14 (native monitor) -- promotion-type Hyperband promotes only eligible trials; surrogate data / pending
evaluations of the multi-fidelity searcher follow the data policy.

``monitor_hyperband(tier, seed)`` drives the REAL ``HyperbandScheduler`` (types promotion, pasha, rush_promotion,
cost_promotion; for the data clauses also stopping) through a Tuner-like scripted event loop (suggest / on_trial_add /
on_trial_result / on_trial_remove / on_trial_complete / on_trial_error, several workers, random interleavings) and
compares every answer with an independent reference ledger written here:

* rung levels recomputed from the documented formula, promotion quantile = ``numpy.quantile`` (linear) of ALL metrics
  recorded at the rung, q = r_j / r_{j+1} (mode max: 1 - q);
* eligibility is three-valued: ``yes`` / ``tie`` / ``no``.  ``tie`` = metric equal to the quantile up to round-off
  (this includes a rung with a single entry, whose quantile is the entry itself, and rungs of equal values); a tie may
  go either way.  Exactly equal metric values of two trials are interchangeable;
* cost-aware variant: rank k of the best unpromoted trial must satisfy C(r,k) <= q C(r,N) on the TOTAL cost
  accumulated over all jobs of a trial (from-scratch restarts: cost of the current job), ties (round-off of the
  sums, equal metrics whose order is open) may go either way;
* RUSH: a non-candidate trial additionally has to be no worse than the best threshold candidate recorded at the rung;
* PASHA: resource cap read from the rung system; it must grow monotonically over rung levels, no trial is told to run
  beyond it, and the whole trace must be the same for (mode=min, f) and (mode=max, -f) on tables in general position;
* searcher state (GPMultiFidelitySearcher, initial-random phase so no GP is ever fitted): one record per trial, one
  value per level equal to the reported metric (min convention, map_reward="minus_x"), levels exactly those of the
  data policy, pending entries exactly the not-yet-observed levels of the current job of RUNNING trials.

Scenario families (all deterministic for a given seed; PASHA's per-epoch trial sets are replaced by insertion-ordered
sets because the library iterates over sets of strings, whose order changes with PYTHONHASHSEED):
  enum3/enum4     every 3-tuple (quick: + 50 of the 4-tuples; thorough: all) over {-1,-.25,0,.5,1} as metric pattern,
                  3-4 workers, wave schedule (all workers ask, then the trials run to their rung level one by one)
  random          random interleavings of suggest / report / failure / self-completion, random searcher
  gp              the same with searcher="bayesopt" x searcher_data x register_pending_myopic x brackets 1..3
  per_bracket     promotion / rush / cost-aware with rung_system_per_bracket=True, 2-3 brackets and rung systems whose
                  level ratios (hence promotion quantiles) differ from rung to rung
  stopping        stopping type (C03): stop / continue decisions against the ledger (quantile rule at the trial's own
                  rung levels incl. its own metric, fewer than two entries continue, ties either way, no decision off
                  the own rung levels, stopped at or beyond max_t), shared and per-bracket rung systems, brackets 1..3,
                  reports that jump over 1-3 resource values (also over max_t) or repeat the last level
  dyhpo           searcher="dyhpo", type="dyhpo" (linear rung levels 1..5 / 2,4,6, initial-random phase, so DyHPO always
                  proposes a new trial and trials are resumed by its successive-halving branch only): both modes x all
                  data policies; the pause / told-to-run-to / resumed-trial-is-paused clauses and all C14 clauses
  pasha_directed  metric tables built so that the soft ranking changes although the first displaced position is still
                  inside the epsilon band (epsilon > 0 from two curves that cross and cross back); twin run
  pasha_curves    noisy crossing learning curves; twin run (mode=min on f / mode=max on -f)
  pasha_brackets  PASHA with 2-3 brackets, judged by two clauses of its own
Four clauses are kept separate because the unchanged tree violates them (see KNOWN_OPEN): off-rung level added to
the "rungs" data when a trial ends on its own; "rungs_and_last" drops rung levels below the first milestone of a
bracket >= 1 trial; PASHA with several brackets (IndexError / first milestone above the cap).

Bounded stand-in, never counted as proved.
"""
import sys

sys.modules.setdefault("yahpo_gym", None)

import logging
import traceback
from datetime import datetime

import numpy as np

METRIC = "obj"
RESOURCE = "epoch"
COST = "cost"
MRA = "epochs"
NT = 96  # rows of the metric tables (trial ids beyond wrap around with an offset)

# clause names ------------------------------------------------------------------------------------------------
C_EXC = "library-call-raises-no-exception"
C_RL = "rung-levels-follow-documented-formula"
C_SUG = "suggest-returns-start-or-resume"
C_BRK = "new-trial-bracket-within-bracket-count"
C_PAUSE = "trial-continues-below-and-pauses-exactly-at-its-next-rung-level"
C_MAXT = "trial-never-continues-beyond-max-resource"
C_TOLD_NEW = "new-trial-told-to-run-exactly-to-first-rung-level-of-its-bracket"
C_TOLD_RES = "resumed-trial-told-to-run-exactly-to-next-rung-level-config-otherwise-unchanged"
C_RES_PAUSED = "resumed-trial-is-paused-at-a-rung-and-was-not-promoted-from-it-before"
C_RES_Q = "resumed-trial-metric-no-worse-than-promotion-quantile-of-all-metrics-at-rung"
C_RES_COST = "cost-aware-resumed-trial-rank-within-quantile-of-total-accumulated-cost"
C_RES_RUSH = "rush-resumed-non-candidate-no-worse-than-best-threshold-candidate-at-rung"
C_RES_BEST = "resumed-trial-is-best-unpromoted-of-its-rung"
C_RES_HIGH = "resume-from-highest-rung-holding-an-eligible-trial"
C_NEW = "new-trial-started-only-if-no-paused-trial-is-eligible"
C_Q0 = "promotion-quantile-exactly-zero-is-a-valid-cutoff"
C_CAP = "resume-target-within-max-resource-or-pasha-cap"
C_PCAP = "pasha-resource-cap-grows-monotonically-over-rung-levels"
C_TWIN = "pasha-trace-identical-for-min-f-and-max-minus-f"
C_TOTC = "reported-result-annotated-with-total-cost-accumulated-over-pause-resume"
D_ONE = "searcher-data-one-record-per-trial"
D_VAL = "searcher-data-value-equals-reported-metric-in-min-convention"
D_LEV = "searcher-data-levels-exactly-those-selected-by-data-policy"
D_OFFRUNG = "rungs-policy-adds-no-off-rung-level-when-trial-completes-on-its-own"
D_LOWRUNG = "rungs-and-last-policy-keeps-rung-levels-below-first-milestone-of-bracket"
P_RUN = "pending-only-for-running-trials"
P_OBS = "pending-only-at-levels-not-yet-observed-within-current-job"
P_SET = "pending-set-is-exactly-the-next-levels-of-running-trials-per-policy"
P_END = "no-pending-left-after-trial-pauses-stops-completes-or-fails"
S_DEC = "stopping-decision-follows-the-quantile-rule-at-own-rung-levels"
S_OFF = "stopping-no-decision-off-own-rung-levels"
S_MAX = "stopping-trial-stopped-at-or-beyond-max-resource"
PB_EXC = "pasha-with-several-brackets-raises-no-exception"
PB_CAP = "pasha-with-several-brackets-new-trial-first-milestone-within-resource-cap"

CLAUSES = [
    C_EXC, C_RL, C_SUG, C_BRK, C_PAUSE, C_MAXT, C_TOLD_NEW, C_TOLD_RES, C_RES_PAUSED, C_RES_Q, C_RES_COST,
    C_RES_RUSH, C_RES_BEST, C_RES_HIGH, C_NEW, C_Q0, C_CAP, C_PCAP, C_TWIN, C_TOTC,
    D_ONE, D_VAL, D_LEV, D_OFFRUNG, D_LOWRUNG, P_RUN, P_OBS, P_SET, P_END, S_DEC, S_OFF, S_MAX,
    PB_EXC, PB_CAP,
]
# clauses whose violation does not end the scenario (the reference ledger stays valid)
NON_FATAL = {D_OFFRUNG, D_LOWRUNG}
# clauses with scenarios of their own (discrepancies on the unchanged tree are reported under these names only)
KNOWN_OPEN = {D_OFFRUNG, D_LOWRUNG, PB_EXC, PB_CAP}
MAX_VIOL = 5
PROMO_TYPES = ("promotion", "pasha", "rush_promotion", "cost_promotion")


class _Abort(Exception):
    pass


class _OrderedSet(set):
    """a set that iterates in insertion order (any order is a legal set order; this one does not depend on
    PYTHONHASHSEED)"""

    def __init__(self, items=()):
        super().__init__()
        self._order = []
        for x in items:
            self.add(x)

    def add(self, x):
        if x not in self:
            self._order.append(x)
        super().add(x)

    def __iter__(self):
        return iter(self._order)


class _SetDict(dict):
    """PASHA keeps ``epoch -> set(trial_id strings)`` and iterates over pairs of such a set; string hashing is
    randomised per process, which would make the noise estimate (and this monitor) differ from run to run"""

    def __setitem__(self, k, v):
        if type(v) is set:
            v = _OrderedSet(v)
        super().__setitem__(k, v)


class Recorder:
    def __init__(self):
        self.count = {c: 0 for c in CLAUSES}
        self.viol = {c: [] for c in CLAUSES}
        self.total = 0
        self.cover = {"q0": 0, "tie": 0, "eps": 0, "twin_steps": 0, "resume": 0}

    def check(self, clause, ok, ctx=None, **details):
        self.count[clause] += 1
        self.total += 1
        if not ok:
            if len(self.viol[clause]) < MAX_VIOL:
                d = {"clause": clause}
                if ctx is not None:
                    d.update(ctx())
                d.update(details)
                self.viol[clause].append(_js(d))
            if clause not in NON_FATAL:
                raise _Abort()
        return ok


def _js(x):
    if isinstance(x, dict):
        return {str(k): _js(v) for k, v in x.items()}
    if isinstance(x, (list, tuple, set, frozenset)):
        return [_js(v) for v in (sorted(x, key=str) if isinstance(x, (set, frozenset)) else x)]
    if isinstance(x, np.generic):
        return x.item()
    if isinstance(x, (int, float, str, bool)) or x is None:
        return x
    return str(x)


# --------------------------------------------------------------------------------------------------------------
# independent reference pieces
# --------------------------------------------------------------------------------------------------------------
def ref_rung_levels(rung):
    """documented: round(r_min * eta^j) resp. r_min + j*nu, all < max_t; explicit lists lose a trailing max_t"""
    max_t = rung["max_t"]
    if rung.get("rung_levels") is not None:
        lv = [int(x) for x in rung["rung_levels"]]
    elif rung.get("reduction_factor") is not None:
        lv, j = [], 0
        while rung["grace_period"] * (rung["reduction_factor"] ** j) < max_t:
            lv.append(int(round(rung["grace_period"] * (rung["reduction_factor"] ** j))))
            j += 1
    else:
        lv = list(range(rung["grace_period"], max_t, rung["rung_increment"]))
    return [x for x in lv if x < max_t]


def make_table(kind, seed, max_t, arg=None):
    rs = np.random.RandomState(seed)
    shape = (NT, max_t)
    if kind == "generic":
        t = rs.uniform(0.05, 1.0, size=shape)
    elif kind == "signed":
        t = rs.uniform(-1.0, 1.0, size=shape)
    elif kind == "grid0":
        t = rs.choice(np.array([-1.0, -0.5, -0.25, 0.0, 0.0, 0.0, 0.25, 0.5, 1.0]), size=shape)
    elif kind == "ints":
        t = rs.randint(0, 4, size=shape).astype(float)
    elif kind == "const":
        t = np.full(shape, float(rs.choice([0.0, 0.5, -2.0])))
    elif kind == "curves":
        base = rs.uniform(0.2, 1.0, size=(NT, 1))
        ep = np.arange(1, max_t + 1).reshape((1, -1))
        t = np.round(base * (1.0 + 2.0 / ep) + rs.normal(0.0, 0.08, size=shape), 4)
        t = t + 1e-8 * np.arange(t.size).reshape(shape)
    elif kind == "enum":
        # arg = tuple of values; entry (trial, level) cycles through the tuple so that every rung sees all patterns
        vals = np.array(arg, dtype=float)
        k = len(vals)
        t = np.empty(shape)
        for i in range(NT):
            for l in range(max_t):
                t[i, l] = vals[(i + l * (1 + i // k)) % k]
    elif kind == "pasha_directed":
        t = _pasha_directed_table(rs, max_t, arg)
    else:
        raise ValueError(kind)
    return t


def _pasha_directed_table(rs, max_t, arg):
    """rung levels g,2g,4g (g = arg['g'] >= 2); trials A,B,C are built such that (min convention) the curves of A and B
    cross and cross back (PASHA's noise estimate becomes epsilon = |A-B| at level 2g = 0.07 * scale), the previous
    rung (level g) ranks A,B,C with A..B and B..C inside but A..C outside the epsilon band, and the top rung (level
    2g) ranks B,C,A: the soft ranking has changed (A left the band of position 3), the cap must grow."""
    g = arg["g"]
    scale = rs.uniform(0.5, 2.0)
    off = rs.uniform(-3.0, 1.0)
    jit = lambda: rs.uniform(-0.004, 0.004)
    t = np.empty((NT, max_t))
    # default: clearly worse, monotone, never crossing anybody
    for i in range(NT):
        b = 3.0 + 0.1 * i
        for l in range(max_t):
            t[i, l] = b + 1.0 / (l + 1)
    perm = list(rs.permutation(8))
    A, B, C, D = perm[0], perm[1], perm[2], perm[3]

    def phase(l):
        return 0 if l < g else 1 if l == g else 2 if l < 2 * g else 3 if l == 2 * g else 4

    def curve(i, knots):
        for l in range(1, max_t + 1):
            t[i, l - 1] = knots[phase(l)] + jit()

    # phases: 0: levels < g, 1: level g (previous rung), 2: between, 3: level 2g (top rung), 4: beyond
    curve(A, [1.30, 1.00, 0.90, 0.87, 0.60])
    curve(B, [1.20, 1.05, 0.95, 0.80, 0.70])
    curve(C, [1.40, 1.10, 1.00, 0.85, 0.80])
    curve(D, [2.20, 2.00, 1.90, 1.80, 1.70])
    t = t * scale + off
    return t


def make_costs(kind, seed, max_t):
    rs = np.random.RandomState(seed + 7919)
    shape = (NT, max_t)
    if kind == "generic":
        return rs.uniform(0.5, 2.0, size=shape)
    if kind == "ints":
        return rs.randint(1, 4, size=shape).astype(float)
    if kind == "skew":
        return np.exp(rs.normal(0.0, 1.5, size=(NT, 1))) * rs.uniform(0.5, 1.5, size=shape)
    raise ValueError(kind)


# --------------------------------------------------------------------------------------------------------------
# the simulator: real scheduler(s) + reference ledger
# --------------------------------------------------------------------------------------------------------------
class Sim:
    def __init__(self, spec, rec, lib):
        self.spec, self.rec, self.lib = spec, rec, lib
        self.type, self.mode = spec["type"], spec["mode"]
        self.promo = self.type in PROMO_TYPES  # the C04 suggest clauses apply
        # pause-and-resume semantics (DyHPO pauses at every rung level like ASHA, but decides promotions differently:
        # only the pause / told-to-run-to / resumed-trial-is-paused clauses and the C14 clauses apply to it)
        self.pauses = self.promo or self.type == "dyhpo"
        self.cost = self.type == "cost_promotion"
        self.rush_k = spec.get("rush_k", 0) if self.type == "rush_promotion" else 0
        rung = spec["rung"]
        self.max_t = rung["max_t"]
        self.RL = ref_rung_levels(rung)
        self.RLset = set(self.RL)
        self.nb = min(spec["brackets"], len(self.RL) + 1)
        self.per_bracket = bool(spec["per_bracket"])
        self.mra, self.ckpt = bool(spec["mra"]), bool(spec["ckpt"])
        self.policy, self.myopic = spec["searcher_data"], bool(spec["myopic"])
        self.bayes = spec["searcher"] in ("bayesopt", "dyhpo")  # searcher with a TuningJobState to inspect
        tk = spec["table"]
        self.table = make_table(tk["kind"], tk["seed"], self.max_t, tk.get("arg"))
        if tk["kind"] == "pasha_directed" and self.mode == "max":
            self.table = -self.table  # the table is designed in the minimisation convention
        self.costs = make_costs(spec.get("cost_kind", "generic"), tk["seed"], self.max_t)
        self.step = 0
        self.log = []
        # PASHA with more than one bracket is judged by clauses of its own
        pb = self.type == "pasha" and spec["brackets"] > 1
        self.c_exc = PB_EXC if pb else C_EXC
        self.c_cap_new = PB_CAP if pb else C_CAP
        self.sched = self._make(self.mode)
        self.twin = None
        if spec.get("twin"):
            self.twin = self._make("max" if self.mode == "min" else "min")
        nsys = self.nb if self.per_bracket else 1
        self.systems = [{l: [] for l in self.RL[s:]} for s in range(nsys)]
        self.trials = {}
        self.next_id = 0
        self.cap_prev = None
        self.ambiguous = False
        self.rec.check(C_RL, list(self.sched.rung_levels) == self.RL and self.sched.max_t == self.max_t, self.ctx,
                       library=list(self.sched.rung_levels), reference=self.RL)

    # ---------------------------------------------------------------------------------------------------
    def ctx(self):
        return {"scenario": self.spec, "step": self.step, "last_events": self.log[-12:]}

    def _make(self, mode):
        spec, rung = self.spec, self.spec["rung"]
        cs = {"x": self.lib["uniform"](0.0, 1.0)}
        kw = dict(searcher=spec["searcher"], type=self.type, metric=METRIC, mode=mode, resource_attr=RESOURCE,
                  brackets=spec["brackets"], rung_system_per_bracket=self.per_bracket,
                  searcher_data=self.policy, register_pending_myopic=self.myopic,
                  random_seed=spec["sched_seed"])
        if self.mra:
            cs[MRA] = self.max_t
            kw["max_resource_attr"] = MRA
        else:
            kw["max_t"] = self.max_t
        if rung.get("rung_levels") is not None:
            kw["rung_levels"] = list(rung["rung_levels"])
        else:
            kw["grace_period"] = rung["grace_period"]
            if rung.get("reduction_factor") is not None:
                kw["reduction_factor"] = rung["reduction_factor"]
            else:
                kw["rung_increment"] = rung["rung_increment"]
        if self.cost:
            kw["cost_attr"] = COST
        if self.type == "rush_promotion":
            kw["rung_system_kwargs"] = {"num_threshold_candidates": self.rush_k}
        if self.type == "dyhpo":
            kw["rung_system_kwargs"] = {"probability_sh": spec.get("probability_sh", 0.25)}
        if self.bayes:
            kw["search_options"] = {"num_init_random": 10 ** 6, "debug_log": False, "map_reward": "minus_x"}
        else:
            kw["search_options"] = {"debug_log": False}
        sched = self.call(self.lib["HyperbandScheduler"], cs, **kw)
        if self.type == "pasha":
            for rsys in sched.terminator._rung_systems:
                rsys.epoch_to_trials = _SetDict()  # determinism only, see _SetDict
        return sched

    def call(self, fn, *a, **k):
        try:
            out = fn(*a, **k)
        except _Abort:
            raise
        except Exception as e:  # noqa
            self.rec.check(self.c_exc, False, self.ctx, where=getattr(fn, "__name__", str(fn)), error=repr(e)[:300],
                           tb=traceback.format_exc()[-700:])
        self.rec.check(self.c_exc, True)
        return out

    # reference helpers ----------------------------------------------------------------------------------
    def nxt(self, r):
        i = self.RL.index(r)
        return self.RL[i + 1] if i + 1 < len(self.RL) else self.max_t

    def value(self, tid, l):
        return float(self.table[tid % NT, min(l, self.max_t) - 1])

    def cost_sum(self, tid, a, b):
        """cost of epochs a..b (inclusive)"""
        return float(np.sum(self.costs[tid % NT, a - 1:b]))

    def cap(self):
        if self.type != "pasha":
            return self.max_t
        return self.sched.terminator._rung_systems[0].current_max_t

    def better(self, a, b):
        """metric a strictly better than metric b"""
        return a < b if self.mode == "min" else a > b

    def rush_ok(self, entries, e):
        if self.type != "rush_promotion" or self.rush_k <= 0 or e["tid"] < self.rush_k:
            return True
        cands = [x["metric"] for x in entries if x["tid"] < self.rush_k]
        return not any(self.better(c, e["metric"]) for c in cands)

    def entry_status(self, r, entries, e):
        q = r / self.nxt(r)
        n = len(entries)
        if self.cost:
            c_lo = sum(x["cost"] for x in entries if self.better(x["metric"], e["metric"])) + e["cost"]
            c_hi = c_lo + sum(x["cost"] for x in entries if x is not e and x["metric"] == e["metric"])
            total = sum(x["cost"] for x in entries)
            thr, tol = q * total, 1e-9 * total
            st = "yes" if c_hi <= thr - tol else ("no" if c_lo > thr + tol else "tie")
            return {"status": st, "cum_cost": [c_lo, c_hi], "threshold": thr, "n": n}
        vals = [x["metric"] for x in entries]
        cutoff = float(np.quantile(np.array(vals, dtype=float), q if self.mode == "min" else 1.0 - q))
        d = (cutoff - e["metric"]) if self.mode == "min" else (e["metric"] - cutoff)
        tol = 1e-9 * max(abs(v) for v in vals)
        st = "yes" if d > tol else ("no" if d < -tol else "tie")
        return {"status": st, "cutoff": cutoff, "n": n, "q": q}

    def rung_status(self, sysidx, r):
        entries = self.systems[sysidx][r]
        unp = [e for e in entries if not e["promoted"] and self.rush_ok(entries, e)]
        if not unp:
            return None
        best = unp[0]
        for e in unp[1:]:
            if self.better(e["metric"], best["metric"]):
                best = e
        st = self.entry_status(r, entries, best)
        st["level"] = r
        st["best"] = sorted(e["tid"] for e in unp if e["metric"] == best["metric"])
        st["best_metric"] = best["metric"]
        return st

    def admissible(self, sysidx, cap):
        sure, ties = None, []
        for r in sorted(self.systems[sysidx], reverse=True):
            if self.nxt(r) > cap:
                continue
            st = self.rung_status(sysidx, r)
            if st is None:
                continue
            if st["status"] == "yes":
                sure = st
                break
            if st["status"] == "tie":
                ties.append(st)
        return sure, ties

    # events -----------------------------------------------------------------------------------------------
    def suggest(self):
        L, rec = self.lib, self.rec
        nid = self.next_id
        sug = self.call(self.sched.suggest, nid)
        ok = sug is not None and (sug.spawn_new_trial_id or sug.checkpoint_trial_id is not None)
        rec.check(C_SUG, ok, self.ctx, got=str(sug))
        sug2 = None
        if self.twin is not None:
            sug2 = self.call(self.twin.suggest, nid)
        cap = self.cap()
        if sug.spawn_new_trial_id:
            info = self.sched._active_trials[str(nid)]
            b = int(info.bracket)
            rec.check(C_BRK, 0 <= b < self.nb, self.ctx, bracket=b, num_brackets=self.nb)
            sysidx = b if self.per_bracket else 0
            fm = self.RL[b] if b < len(self.RL) else self.max_t
            self.log.append(["suggest", "new", nid, "bracket", b])
            if self.promo:
                sure, ties = self.admissible(sysidx, cap)
                self._q0(sure, ties, None)
                rec.check(C_NEW, sure is None, self.ctx, eligible=sure, cap=cap,
                          rung=self._dump(sysidx, sure["level"]) if sure else None)
                if ties:
                    rec.cover["tie"] += 1
                    if any(s["n"] > 1 for s in ties):
                        self.ambiguous = True
                rec.check(self.c_cap_new, fm <= cap, self.ctx, first_milestone=fm, cap=cap, bracket=b)
            if self.mra and self.pauses:
                rec.check(C_TOLD_NEW, sug.config.get(MRA) == fm, self.ctx, told=sug.config.get(MRA), expected=fm)
            self.twin_cmp("suggest", self._sug_key(sug), self._sug_key(sug2))
            trial = L["Trial"](trial_id=nid, config=dict(sug.config), creation_time=datetime(2024, 1, 1))
            self.call(self.sched.on_trial_add, trial)
            t = {"tid": nid, "bracket": b, "sysidx": sysidx, "state": "running", "m": fm, "resume_from": None,
                 "last": 0, "next": 1, "start": 1, "reported": {}, "pause_level": None, "trial": trial,
                 "config0": dict(sug.config), "last_result": None, "completed_at": None, "fm": fm}
            if self.twin is not None:
                t["trial2"] = L["Trial"](trial_id=nid, config=dict(sug2.config), creation_time=datetime(2024, 1, 1))
                self.call(self.twin.on_trial_add, t["trial2"])
            self.trials[nid] = t
            self.next_id += 1
            self.after_event(None)
            return nid
        # resume
        T = int(sug.checkpoint_trial_id)
        t = self.trials.get(T)
        r = t["pause_level"] if t is not None else None
        entries = self.systems[t["sysidx"]].get(r) if t is not None and r is not None else None
        e = None
        if entries is not None:
            e = next((x for x in entries if x["tid"] == T), None)
        self.log.append(["suggest", "resume", T, "from", r])
        ok = t is not None and t["state"] == "paused" and e is not None and not e["promoted"]
        rec.check(C_RES_PAUSED, ok, self.ctx, trial=T, state=None if t is None else t["state"], pause_level=r,
                  promoted_before=None if e is None else e["promoted"])
        rec.cover["resume"] += 1
        sysidx = t["sysidx"]
        if self.promo:
            self._resume_eligibility(T, t, r, entries, e, sysidx, cap)
        nx = self.nxt(r)
        rec.check(C_CAP, nx <= cap <= self.max_t, self.ctx, target=nx, cap=cap, max_t=self.max_t)
        if self.mra:
            cfg = sug.config
            ok = cfg is not None and cfg.get(MRA) == nx and all(
                cfg.get(k) == v for k, v in t["config0"].items() if k != MRA)
            rec.check(C_TOLD_RES, ok, self.ctx, told=cfg, expected_target=nx, original=t["config0"])
        e["promoted"] = True
        t.update(state="running", m=nx, resume_from=r, last=r, next=(r + 1 if self.ckpt else 1))
        t["start"] = t["next"]
        if sug.config is not None:
            t["trial"].config = dict(sug.config)
        if self.twin is not None and sug2 is not None and sug2.config is not None:
            t["trial2"].config = dict(sug2.config)
        self.twin_cmp("suggest", self._sug_key(sug), self._sug_key(sug2))
        self.after_event(None)
        return T

    def _resume_eligibility(self, T, t, r, entries, e, sysidx, cap):
        rec = self.rec
        sure, ties = self.admissible(sysidx, cap)
        stT = self.entry_status(r, entries, e)
        det = dict(trial=T, rung=self._dump(sysidx, r), status=stT)
        rec.check(C_RES_COST if self.cost else C_RES_Q, stT["status"] != "no", self.ctx, **det)
        if self.type == "rush_promotion":
            rec.check(C_RES_RUSH, self.rush_ok(entries, e), self.ctx, num_threshold_candidates=self.rush_k, **det)
        others = [x["tid"] for x in entries if not x["promoted"] and x is not e and self.rush_ok(entries, x)
                  and self.better(x["metric"], e["metric"])]
        rec.check(C_RES_BEST, not others, self.ctx, better_unpromoted=others, **det)
        rec.check(C_RES_HIGH, sure is None or r >= sure["level"], self.ctx, resumed_from=r, eligible_higher=sure,
                  higher_rung=self._dump(sysidx, sure["level"]) if sure else None, **det)
        self._q0(sure, ties, r)
        if stT["status"] == "tie" or len(ties) > 0 or (sure is not None and len(sure["best"]) > 1):
            rec.cover["tie"] += 1
            # (a rung with a single entry is a tie for the C04 clauses, but no round-off is involved: the two runs of
            # a twin pair must still agree there)
            if (stT["status"] == "tie" and stT["n"] > 1) or any(s["n"] > 1 for s in ties) or (
                    sure is not None and len(sure["best"]) > 1):
                self.ambiguous = True

    def _q0(self, sure, ties, resumed_level):
        """a rung whose promotion quantile is exactly 0.0 and whose best unpromoted trial is strictly better holds an
        eligible trial like any other rung"""
        if sure is None or self.cost or sure.get("cutoff") != 0.0:
            return
        self.rec.cover["q0"] += 1
        ok = resumed_level is not None and (resumed_level == sure["level"] or any(
            resumed_level == s["level"] for s in ties))
        self.rec.check(C_Q0, ok, self.ctx, eligible=sure, resumed_from=resumed_level,
                       rung=self._dump(0 if not self.per_bracket else None, sure["level"]))

    def _dump(self, sysidx, r):
        if sysidx is None or r is None:
            return None
        return [[e["tid"], e["metric"], e.get("cost"), e["promoted"]] for e in self.systems[sysidx][r]]

    def _sug_key(self, sug):
        if sug is None:
            return None
        cfg = sug.config or {}
        return [bool(sug.spawn_new_trial_id), sug.checkpoint_trial_id, cfg.get(MRA), cfg.get("x")]

    def twin_cmp(self, what, a, b):
        if self.twin is None:
            return
        if self.ambiguous:
            # a tie was met: the two runs may legitimately diverge from here on
            self.twin = None
            return
        self.rec.cover["twin_steps"] += 1
        self.rec.check(C_TWIN, a == b, self.ctx, what=what, primary=a, twin=b,
                       primary_mode=self.mode)

    def report(self, tid):
        rec = self.rec
        t = self.trials[tid]
        l = t["next"]
        v = self.value(tid, l)
        res = {METRIC: v, RESOURCE: l}
        if self.cost:
            res[COST] = self.cost_sum(tid, t["start"], l)
        res1 = dict(res)
        dec = self.call(self.sched.on_trial_result, t["trial"], res1)
        self.log.append(["report", tid, l, v, dec])
        if self.twin is not None:
            res2 = dict(res)
            res2[METRIC] = -v
            dec2 = self.call(self.twin.on_trial_result, t["trial2"], res2)
            t["last_result2"] = res2
            self.twin_cmp("decision", dec, dec2)
        t["reported"].setdefault(l, v)
        t["last_result"] = res1
        redo = t["resume_from"] is not None and l <= t["resume_from"]
        prev_last = t["last"]
        if not redo:
            t["last"] = l
        t["next"] = l + 1
        ended = None
        if self.pauses:
            if l >= self.max_t:
                rec.check(C_MAXT, dec in ("STOP", "PAUSE"), self.ctx, trial=tid, level=l, decision=dec)
                exp = dec
            else:
                exp = "CONTINUE" if l < t["m"] else "PAUSE"
                rec.check(C_PAUSE, dec == exp, self.ctx, trial=tid, level=l, milestone=t["m"],
                          resume_from=t["resume_from"], decision=dec, expected=exp)
            if self.cost and not redo:
                tot = self.cost_sum(tid, 1, l)
                got = res1.get("total_" + COST)
                rec.check(C_TOTC, got is not None and abs(got - tot) <= 1e-9 * tot, self.ctx, trial=tid, level=l,
                          annotated=got, reference_total=tot, reported_since_resume=res[COST])
            if l == t["m"]:
                if l < self.max_t:
                    self.systems[t["sysidx"]][l].append(
                        {"tid": tid, "metric": v, "cost": self.cost_sum(tid, 1, l), "promoted": False})
                    t["state"], t["pause_level"] = "paused", l
                else:
                    t["state"] = "stopped"
                ended = tid
                self.call(self.sched.on_trial_remove, t["trial"])
                if self.twin is not None:
                    self.call(self.twin.on_trial_remove, t["trial2"])
        else:
            self.check_stopping_decision(t, tid, l, v, dec)
            if dec != "CONTINUE":
                t["state"] = "stopped"
                ended = tid
                self.call(self.sched.on_trial_remove, t["trial"])
            elif l >= t["m"]:
                ms = self.RL[t["bracket"]:] + [self.max_t]
                t["m"] = min([x for x in ms if x > l] or [self.max_t])
        self.after_event(ended, reported=(tid, l, prev_last))
        return dec

    def check_stopping_decision(self, t, tid, l, v, dec):
        """C03: stop / continue decisions of the stopping type against the ledger"""
        rec = self.rec
        if l >= self.max_t:
            rec.check(S_MAX, dec == "STOP", self.ctx, trial=tid, level=l, max_t=self.max_t, decision=dec)
            return
        own = self.RL[t["bracket"]:]
        entered = t.setdefault("entered", set())
        if l in own and l not in entered:
            entered.add(l)
            entries = self.systems[t["sysidx"]][l]
            e = {"tid": tid, "metric": v, "cost": None, "promoted": False}
            entries.append(e)
            if len(entries) < 2:
                st, allowed = {"status": "fewer-than-two-entries", "n": len(entries)}, ("CONTINUE",)
            else:
                st = self.entry_status(l, entries, e)
                allowed = {"yes": ("CONTINUE",), "no": ("STOP",), "tie": ("CONTINUE", "STOP")}[st["status"]]
                if st["status"] == "tie":
                    rec.cover["tie"] += 1
            rec.check(S_DEC, dec in allowed, self.ctx, trial=tid, bracket=t["bracket"], level=l, metric=v,
                      decision=dec, allowed=allowed, status=st, rung=self._dump(t["sysidx"], l),
                      per_bracket=self.per_bracket)
        else:
            # not one of the trial's own rung levels (below the bracket offset, between levels, a level that was
            # jumped over, or a level reported for the second time): no decision is taken
            rec.check(S_OFF, dec == "CONTINUE", self.ctx, trial=tid, bracket=t["bracket"], level=l,
                      own_rung_levels=own, entered=sorted(entered), decision=dec)

    def fail(self, tid):
        t = self.trials[tid]
        self.log.append(["fail", tid])
        self.call(self.sched.on_trial_error, t["trial"])
        if self.twin is not None:
            self.call(self.twin.on_trial_error, t["trial2"])
        t["state"] = "failed"
        self.after_event(tid)

    def complete(self, tid):
        t = self.trials[tid]
        lr = t["last_result"]
        self.log.append(["complete", tid, lr[RESOURCE]])
        self.call(self.sched.on_trial_complete, t["trial"], lr)
        if self.twin is not None:
            self.call(self.twin.on_trial_complete, t["trial2"], t["last_result2"])
        t["state"] = "completed"
        t["completed_at"] = lr[RESOURCE]
        self.after_event(tid, completed=tid)

    # checks after every event --------------------------------------------------------------------------------
    def after_event(self, ended, reported=None, completed=None):
        self.step += 1
        if self.type == "pasha":
            cap = self.cap()
            ok = (cap in self.RLset or cap == self.max_t) and (self.cap_prev is None or cap >= self.cap_prev)
            self.rec.check(C_PCAP, ok, self.ctx, cap=cap, previous=self.cap_prev, rung_levels=self.RL)
            self.cap_prev = cap
            if self.twin is not None:
                self.twin_cmp("cap", cap, self.twin.terminator._rung_systems[0].current_max_t)
            if self.sched.terminator._rung_systems[0].epsilon > 0:
                self.rec.cover["eps"] += 1
        if self.bayes:
            self.check_state(ended, reported, completed)

    def expected_levels(self, t):
        rep = set(t["reported"])
        rung_like = {l for l in rep if l in self.RLset or l == self.max_t}
        if self.policy == "all":
            return rep, set()
        if self.policy == "rungs":
            opt = set()
            if t["completed_at"] is not None and t["completed_at"] not in rung_like:
                opt.add(t["completed_at"])  # judged by D_OFFRUNG
            return rung_like, opt
        req = set(rung_like)
        low = {l for l in rung_like if l < t["fm"] and l in self.RLset}  # judged by D_LOWRUNG
        req -= low
        if rep:
            req.add(max(rep))
        return req, low

    def check_state(self, ended, reported, completed):
        rec = self.rec
        IM = self.lib["INTERNAL_METRIC_NAME"]
        searcher = self.sched.searcher
        searcher = getattr(searcher, "_searcher_int", searcher)  # DyHPO wraps a GP multi-fidelity searcher
        st = searcher.state_transformer.state
        ids = [e.trial_id for e in st.trials_evaluations]
        rec.check(D_ONE, len(ids) == len(set(ids)), self.ctx, trial_ids=ids)
        obs = {}
        for e in st.trials_evaluations:
            d = e.metrics.get(IM) or {}
            obs.setdefault(int(e.trial_id), {}).update({int(k): v for k, v in d.items()})
        sgn = 1.0 if self.mode == "min" else -1.0
        for tid, d in obs.items():
            t = self.trials.get(tid)
            for l, val in d.items():
                ok = t is not None and l in t["reported"] and val == sgn * t["reported"][l]
                rec.check(D_VAL, ok, self.ctx, trial=tid, level=l, stored=val,
                          reported=None if t is None else t["reported"].get(l))
        for tid, t in self.trials.items():
            req, opt = self.expected_levels(t)
            have = set(obs.get(tid, {}))
            rec.check(D_LEV, req <= have <= (req | opt), self.ctx, trial=tid, policy=self.policy, have=have,
                      required=req, optional=opt, bracket=t["bracket"], first_milestone=t["fm"],
                      state=t["state"], reported=sorted(t["reported"]))
        if completed is not None and self.policy == "rungs":
            t = self.trials[completed]
            l = t["completed_at"]
            if l not in self.RLset and l != self.max_t:
                rec.check(D_OFFRUNG, l not in obs.get(completed, {}), self.ctx, trial=completed, level=l,
                          data=obs.get(completed, {}), rung_levels=self.RL)
        if reported is not None and self.policy == "rungs_and_last":
            tid, l, prev_last = reported
            t = self.trials[tid]
            if l > prev_last and prev_last in self.RLset and prev_last < t["fm"] and t["resume_from"] is None:
                rec.check(D_LOWRUNG, prev_last in obs.get(tid, {}), self.ctx, trial=tid, bracket=t["bracket"],
                          first_milestone=t["fm"], rung_level=prev_last, now_reported=l,
                          data=sorted(obs.get(tid, {})))
        pend = [(int(p.trial_id), p.resource) for p in st.pending_evaluations]
        exp = set()
        for tid, t in self.trials.items():
            if t["state"] != "running":
                continue
            if self.policy == "rungs":
                exp.add((tid, t["m"]))
            elif self.myopic:
                exp.add((tid, t["last"] + 1))
            else:
                exp.update((tid, l) for l in range(t["last"] + 1, t["m"] + 1))
        if ended is not None:
            rec.check(P_END, not any(tid == ended for tid, _ in pend), self.ctx, trial=ended,
                      state=self.trials[ended]["state"], pending=sorted(pend))
        for tid, l in pend:
            t = self.trials.get(tid)
            rec.check(P_RUN, t is not None and t["state"] == "running", self.ctx, pending=[tid, l],
                      state=None if t is None else t["state"], all_pending=pend)
            rec.check(P_OBS, l not in obs.get(tid, {}) and t["last"] < l <= t["m"], self.ctx, pending=[tid, l],
                      observed=sorted(obs.get(tid, {})), last_level=t["last"], milestone=t["m"])
        rec.check(P_SET, len(pend) == len(set(pend)) and set(pend) == exp, self.ctx, pending=sorted(pend),
                  expected=sorted(exp), policy=self.policy, myopic=self.myopic)

    # schedules ---------------------------------------------------------------------------------------------
    def running(self):
        return [tid for tid, t in self.trials.items() if t["state"] == "running"]

    def run(self):
        spec = self.spec
        if spec["schedule"] == "waves":
            for _ in range(spec["waves"]):
                order = []
                while len(self.running()) < spec["workers"]:
                    order.append(self.suggest())
                for tid in order:  # trials run one after the other, in the order they were scheduled
                    while self.trials[tid]["state"] == "running":
                        self.report(tid)
            return
        rs = np.random.RandomState(spec["ev_seed"])
        W, pf, pc = spec["workers"], spec.get("p_fail", 0.0), spec.get("p_complete", 0.0)
        p_skip, p_dup = spec.get("p_skip", 0.0), spec.get("p_dup", 0.0)
        assert p_skip == 0.0 or (self.type == "stopping" and not self.bayes)
        for _ in range(spec["events"]):
            if self.next_id >= NT - 1:
                break
            run = self.running()
            free = W - len(run)
            u = rs.rand()
            if run and u < pf:
                self.fail(run[rs.randint(len(run))])
                continue
            if run and u < pf + pc:
                cands = [tid for tid in run if self.trials[tid]["last_result"] is not None]
                if cands:
                    self.complete(cands[rs.randint(len(cands))])
                    continue
            k = rs.randint(free + len(run))
            if k < free:
                self.suggest()
            else:
                tid = run[k - free]
                if p_skip > 0.0:
                    t, w = self.trials[tid], rs.rand()
                    if w < p_skip:
                        t["next"] += int(rs.randint(1, 4))  # the report jumps over 1-3 resource values
                    elif w < p_skip + p_dup and t["next"] > 1:
                        t["next"] -= 1  # the last level is reported once more
                self.report(tid)


# --------------------------------------------------------------------------------------------------------------
# catalogue
# --------------------------------------------------------------------------------------------------------------
RUNGS = {
    "g1e3m9": {"grace_period": 1, "reduction_factor": 3, "max_t": 9},  # 1,3
    "g1e2m8": {"grace_period": 1, "reduction_factor": 2, "max_t": 8},  # 1,2,4
    "g1e3m27": {"grace_period": 1, "reduction_factor": 3, "max_t": 27},  # 1,3,9
    "g2e2m16": {"grace_period": 2, "reduction_factor": 2, "max_t": 16},  # 2,4,8
    "g3e3m27": {"grace_period": 3, "reduction_factor": 3, "max_t": 27},  # 3,9
    "g1i2m7": {"grace_period": 1, "rung_increment": 2, "max_t": 7},  # 1,3,5
    "list": {"rung_levels": [1, 2, 5, 9], "max_t": 9},  # 1,2,5 (trailing max_t stripped)
    "g2e2.5m12": {"grace_period": 2, "reduction_factor": 2.5, "max_t": 12},  # 2,5
    "g3e2m24": {"grace_period": 3, "reduction_factor": 2, "max_t": 24},  # 3,6,12
    "list2": {"rung_levels": [1, 2, 9], "max_t": 10},  # q = 1/2, 2/9, 9/10
    "g1i3m8": {"grace_period": 1, "rung_increment": 3, "max_t": 8},  # 1,4,7: q = 1/4, 4/7, 7/8
    "g1e3m20": {"grace_period": 1, "reduction_factor": 3, "max_t": 20},  # 1,3,9: q = 1/3, 1/3, 9/20
    "dy1m6": {"grace_period": 1, "rung_increment": 1, "max_t": 6},  # 1,2,3,4,5 (DyHPO: linear, grace == increment)
    "dy2m8": {"grace_period": 2, "rung_increment": 2, "max_t": 8},  # 2,4,6
}
PASHA_RUNGS = ["g1e2m8", "g1e3m27", "g2e2m16", "g1i2m7", "list", "g3e2m24"]
GRID5 = (-1.0, -0.25, 0.0, 0.5, 1.0)


def _base(**kw):
    spec = {"family": "?", "type": "promotion", "mode": "min", "rung": dict(RUNGS["g1e3m9"]), "rung_name": "g1e3m9",
            "brackets": 1, "per_bracket": False, "mra": True, "ckpt": True, "searcher": "random",
            "searcher_data": "rungs", "myopic": False, "workers": 3, "schedule": "random", "events": 80,
            "ev_seed": 0, "sched_seed": 0, "table": {"kind": "generic", "seed": 0}, "cost_kind": "generic",
            "p_fail": 0.0, "p_complete": 0.0, "twin": False}
    spec.update(kw)
    if "rung_name" in kw:
        spec["rung"] = dict(RUNGS[kw["rung_name"]])
    return spec


def build_catalogue(tier, seed):
    import itertools

    thorough = tier != "quick"
    rs = np.random.RandomState(1000003 * (seed + 1) % (2 ** 31))
    cat = []
    pick = lambda xs: xs[rs.randint(len(xs))]
    s31 = lambda: int(rs.randint(2 ** 31 - 1))

    # F1: enumerated metric tuples, wave schedule ------------------------------------------------------------
    combos = [("promotion", "min"), ("promotion", "max"), ("rush_promotion", "min"), ("pasha", "max"),
              ("pasha", "min"), ("rush_promotion", "max"), ("cost_promotion", "min"), ("cost_promotion", "max")]
    rnames = ["g1e2m8", "g1e3m27", "g1i2m7"]
    tuples3 = list(itertools.product(GRID5, repeat=3))
    for i, tup in enumerate(tuples3):
        for j, (ty, mo) in enumerate(combos if thorough else [combos[i % len(combos)]]):
            cat.append(_base(family="enum3", type=ty, mode=mo, rung_name=rnames[(i + j) % 3], workers=3,
                             schedule="waves", waves=4, mra=bool((i + j) % 2), ckpt=bool((i // 2 + j) % 2),
                             table={"kind": "enum", "seed": i, "arg": list(tup)}, sched_seed=i,
                             cost_kind=("ints", "generic")[i % 2], rush_k=(0, 1, 2)[(i // 5) % 3]))
    tuples4 = list(itertools.product(GRID5, repeat=4))
    sel4 = tuples4 if thorough else [tuples4[k] for k in rs.choice(len(tuples4), 50, replace=False)]
    for i, tup in enumerate(sel4):
        ty, mo = combos[i % len(combos)]
        cat.append(_base(family="enum4", type=ty, mode=mo, rung_name=rnames[i % 3], workers=4, schedule="waves",
                         waves=3, mra=bool(i % 2), ckpt=bool((i // 2) % 2),
                         table={"kind": "enum", "seed": i, "arg": list(tup)}, sched_seed=i,
                         cost_kind=("ints", "skew")[i % 2], rush_k=(0, 2)[(i // 3) % 2]))

    # F2: random interleavings, random searcher (C04) --------------------------------------------------------
    n2 = 1400 if thorough else 300
    types = ["promotion", "cost_promotion", "rush_promotion", "pasha", "cost_promotion", "promotion"]
    kinds = ["generic", "signed", "grid0", "ints", "const", "grid0", "signed"]
    for i in range(n2):
        ty = types[i % len(types)]
        rn = pick(PASHA_RUNGS) if ty == "pasha" else pick(list(RUNGS))
        nbmax = 1 if ty == "pasha" else 3
        b = 1 if i % 3 == 0 else int(rs.randint(1, nbmax + 1))
        cat.append(_base(family="random", type=ty, mode=("min", "max")[(i // len(types)) % 2], rung_name=rn,
                         brackets=b, per_bracket=bool(b > 1 and rs.rand() < 0.3), mra=bool(rs.rand() < 0.5),
                         ckpt=bool(rs.rand() < 0.6), workers=int(rs.randint(1, 5)), events=int(rs.randint(60, 130)),
                         ev_seed=s31(), sched_seed=s31(), table={"kind": kinds[i % len(kinds)], "seed": s31()},
                         cost_kind=pick(["generic", "ints", "skew", "skew"]), rush_k=int(rs.randint(0, 4)),
                         p_fail=0.03, p_complete=0.03))

    # F3: GP multi-fidelity searcher (C14), all data policies -------------------------------------------------
    pols = [("rungs", False), ("rungs", True), ("all", False), ("all", True), ("rungs_and_last", False), ("rungs_and_last", True)]
    reps = 7 if thorough else 2
    for rep in range(reps):
        for ty in ("promotion", "stopping"):
            for (pol, myo) in pols:
                for b in (1, 2, 3):
                    for ck in (True, False):
                        if ty == "stopping" and not ck:
                            continue
                        rn = pick(["g1e3m9", "g1e2m8", "g2e2m16", "g3e3m27", "g1i2m7", "list", "g1e3m27"])
                        cat.append(_base(family="gp", type=ty, mode=pick(["min", "max"]), rung_name=rn, brackets=b,
                                         per_bracket=bool(b > 1 and rs.rand() < 0.25), mra=bool(rs.rand() < 0.5),
                                         ckpt=ck, searcher="bayesopt", searcher_data=pol, myopic=myo,
                                         workers=int(rs.randint(2, 5)), events=int(rs.randint(70, 120)),
                                         ev_seed=s31(), sched_seed=s31(),
                                         table={"kind": pick(["generic", "signed", "ints"]), "seed": s31()},
                                         p_fail=0.05, p_complete=0.08))
        for ty in ("pasha",) * 2:  # (bayesopt supports neither rush_promotion nor cost_promotion)
            for (pol, myo) in pols:
                rn = pick(PASHA_RUNGS)
                cat.append(_base(family="gp", type=ty, mode=pick(["min", "max"]), rung_name=rn,
                                 brackets=1 if ty == "pasha" else int(rs.randint(1, 3)), mra=bool(rs.rand() < 0.5),
                                 ckpt=bool(rs.rand() < 0.7), searcher="bayesopt", searcher_data=pol, myopic=myo,
                                 workers=int(rs.randint(2, 5)), events=int(rs.randint(70, 120)), ev_seed=s31(),
                                 sched_seed=s31(), table={"kind": pick(["generic", "signed"]), "seed": s31()},
                                 rush_k=int(rs.randint(0, 3)), p_fail=0.05, p_complete=0.08))

    # F2b: per-bracket rung systems with non-constant level ratios, promotion types --------------------------------
    NONCONST = ["g1i2m7", "list", "list2", "g1i3m8", "g1e3m20", "g2e2.5m12"]
    for i in range(240 if thorough else 60):
        ty = ("promotion", "rush_promotion", "cost_promotion")[i % 3]
        cat.append(_base(family="per_bracket", type=ty, mode=("min", "max")[(i // 3) % 2], rung_name=NONCONST[i % 6],
                         brackets=2 + (i // 6) % 2, per_bracket=True, mra=bool(rs.rand() < 0.5),
                         ckpt=bool(rs.rand() < 0.6), workers=int(rs.randint(2, 5)), events=int(rs.randint(120, 200)),
                         ev_seed=s31(), sched_seed=s31(), table={"kind": pick(["generic", "signed"]), "seed": s31()},
                         cost_kind=pick(["generic", "skew"]), rush_k=int(rs.randint(0, 3)), p_fail=0.02,
                         p_complete=0.02))

    # F2c: stopping type (C03 decision clauses), shared and per-bracket rung systems, reports that skip levels -------
    allr = [r for r in RUNGS if not r.startswith("dy")]
    for i in range(700 if thorough else 170):
        b = 1 + i % 3
        cat.append(_base(family="stopping", type="stopping", mode=("min", "max")[(i // 3) % 2],
                         rung_name=NONCONST[(i // 6) % 6] if i % 2 else allr[(i // 2) % len(allr)], brackets=b,
                         per_bracket=bool(b > 1 and (i // 6) % 2 == 0), mra=bool(rs.rand() < 0.5), ckpt=True,
                         workers=int(rs.randint(1, 5)), events=int(rs.randint(80, 160)), ev_seed=s31(),
                         sched_seed=s31(), table={"kind": kinds[i % len(kinds)], "seed": s31()},
                         p_fail=0.02, p_complete=0.02, p_skip=(0.0, 0.15, 0.3)[i % 3], p_dup=0.03))

    # F3b: DyHPO (searcher="dyhpo", type="dyhpo"): pause / told-to-run-to clauses and all C14 clauses --------------
    for rep_ in range(3 if thorough else 1):
        for mo in ("min", "max"):
            for (pol, myo) in pols:
                for ck in (True, False):
                    for rn in ("dy1m6", "dy2m8"):
                        cat.append(_base(family="dyhpo", type="dyhpo", mode=mo, rung_name=rn, brackets=1,
                                         mra=bool(rs.rand() < 0.5), ckpt=ck, searcher="dyhpo", searcher_data=pol,
                                         myopic=myo, workers=int(rs.randint(2, 5)), events=int(rs.randint(60, 100)),
                                         ev_seed=s31(), sched_seed=s31(), probability_sh=pick([0.25, 0.6]),
                                         table={"kind": pick(["generic", "signed", "ints"]), "seed": s31()},
                                         p_fail=0.05, p_complete=0.08))

    # F4: PASHA, directed soft-ranking tables (epsilon band), twin run --------------------------------------
    for i in range(24 if thorough else 8):
        g = (2, 3)[i % 2]
        cat.append(_base(family="pasha_directed", type="pasha", mode=("min", "max")[(i // 2) % 2],
                         rung_name="g2e2m16" if g == 2 else "g3e2m24", workers=8, schedule="waves", waves=3,
                         mra=bool(i % 3), ckpt=True, twin=True, sched_seed=s31(),
                         table={"kind": "pasha_directed", "seed": s31(), "arg": {"g": g}}))

    # F6: PASHA with 2-3 brackets (clauses of their own) ---------------------------------------------------------
    for i in range(24 if thorough else 8):
        cat.append(_base(family="pasha_brackets", type="pasha", mode=("min", "max")[i % 2],
                         rung_name=pick(["g1e2m8", "g2e2m16", "g1e3m27"]), brackets=2 + i % 2, workers=3, events=100,
                         ev_seed=s31(), sched_seed=s31(), mra=bool(i % 4 < 2), ckpt=bool(i % 3),
                         table={"kind": "curves", "seed": s31()}))

    # F5: PASHA, noisy crossing curves, twin run ---------------------------------------------------------------
    for i in range(140 if thorough else 30):
        sched = "waves" if i % 2 == 0 else "random"
        cat.append(_base(family="pasha_curves", type="pasha", mode=("min", "max")[i % 2],
                         rung_name=pick(["g1e2m8", "g2e2m16", "g3e2m24", "g1e3m27"]),
                         workers=1 if sched == "waves" else int(rs.randint(1, 5)), schedule=sched, waves=40,
                         events=160, ev_seed=s31(), sched_seed=s31(), mra=bool(rs.rand() < 0.5), ckpt=True,
                         twin=True, table={"kind": "curves", "seed": s31()}))
    return cat


def monitor_hyperband(tier="quick", seed=0):
    from syne_tune.backend.trial_status import Trial
    from syne_tune.config_space import uniform
    from syne_tune.optimizer.schedulers.hyperband import HyperbandScheduler
    from syne_tune.optimizer.schedulers.searchers.bayesopt.datatypes.common import INTERNAL_METRIC_NAME

    lib = {"Trial": Trial, "uniform": uniform, "HyperbandScheduler": HyperbandScheduler,
           "INTERNAL_METRIC_NAME": INTERNAL_METRIC_NAME}
    rec = Recorder()
    cat = build_catalogue(tier, seed)
    fam = {}
    prev_disable = logging.root.manager.disable
    logging.disable(logging.CRITICAL)
    try:
        for spec in cat:
            fam[spec["family"]] = fam.get(spec["family"], 0) + 1
            try:
                Sim(spec, rec, lib).run()
            except _Abort:
                pass
    finally:
        logging.disable(prev_disable)
    violations = [v for c in CLAUSES for v in rec.viol[c]]
    # an empty check must not look green (only a run that was cut short by violations of the fatal clauses may skip some)
    cut_short = any(v["clause"] not in KNOWN_OPEN for v in violations)
    empty = [c for c in CLAUSES if rec.count[c] == 0]
    if empty and not cut_short:
        raise RuntimeError("clauses never exercised: %s" % empty)
    for k in ("q0", "tie", "eps", "twin_steps", "resume"):
        if rec.cover[k] == 0 and not cut_short:
            raise RuntimeError("coverage counter %r is zero (vacuous run)" % k)
    samples = []
    for f in ("enum3", "random", "dyhpo", "pasha_directed"):
        s = next((x for x in cat if x["family"] == f), None)
        if s is not None:
            samples.append({k: s[k] for k in ("family", "type", "mode", "rung_name", "brackets", "mra", "ckpt",
                                              "searcher", "searcher_data", "workers", "schedule", "table")})
    summary = ("tier=%s seed=%d: %d scenarios %s on the real HyperbandScheduler; types promotion/pasha/rush_promotion/"
               "cost_promotion + stopping decisions (C03) + dyhpo for the data clauses; 14 rung systems (2-3 rung levels, max_t<=27); "
               "brackets 1..3 (shared and per-bracket rung systems; PASHA: 1); modes min/max; with/without "
               "max_resource_attr and checkpointing; 1..8 workers; <=130 events (enumerated 3-/4-tuples over %s in "
               "3-4 waves; random interleavings incl. failures / self-completion); searcher random, bayesopt and dyhpo "
               "(GPMultiFidelitySearcher, initial-random phase) x searcher_data rungs/all/rungs_and_last x "
               "myopic on/off; coverage: %s; clause checks: %s"
               % (tier, seed, len(cat), fam, list(GRID5), rec.cover, {c: rec.count[c] for c in CLAUSES}))
    return {"evaluations": rec.total, "distinct": len(cat), "clauses": list(CLAUSES), "violations": violations,
            "samples": samples[:4], "summary": summary}


if __name__ == "__main__":
    import json
    import time

    t0 = time.time()
    out = monitor_hyperband(sys.argv[1] if len(sys.argv) > 1 else "quick", int(sys.argv[2]) if len(sys.argv) > 2 else 0)
    print(json.dumps(out["violations"], indent=1, default=str)[:6000])
    print(out["summary"])
    print("evaluations", out["evaluations"], "distinct", out["distinct"], "violations", len(out["violations"]),
          "time %.1fs" % (time.time() - t0))
