"""C16 / C11 -- native run-time contract monitors for the model-based searchers (REAL code, bounded).

monitor_restore_gp (C16)
    Property: serialising a scheduler the way the tuner checkpoints itself (dill), or taking a searcher's state
    snapshot (get_state) and re-creating the searcher from it (clone_from_state), at any point of any history, yields
    an object whose subsequent suggestions and decisions are identical to those of the object that was never
    interrupted; no configuration is suggested twice or skipped because of the restore.

    Method: for every scenario an UNINTERRUPTED object U is driven through a scripted event history.  For every
    snapshot position k a second, equally constructed object S is driven through the first k events, snapshotted,
    and DISCARDED (as after a restart); the snapshot is restored into a FRESHLY constructed object
    (``fresh.clone_from_state(state)``, ``configure_scheduler`` for multi-fidelity searchers; state used as handed
    out, after pickle.dumps/loads and after dill.dumps/loads), and the restored object R is driven through the
    remaining events.  Clauses: R's suggestions / decisions == U's from k on; R's internal data right after the
    restore == S's at the snapshot (observed data, pending evaluations with resource level and its type, failed
    trials, configurations); R's internal data at the end == U's; prefix + R's suggestions contain no configuration
    twice that U does not suggest twice, and the same set of configurations as U (nothing skipped).
    What the statement leaves open and is therefore NOT compared: the order of internal lists, numpy vs python
    scalar types, timing attributes.  S never runs on after the snapshot, so the (known) sharing of live lists
    between get_state() and the running object cannot interfere; every searcher gets its own copy of
    restrict_configurations / points_to_evaluate.  Snapshots are taken where the tuner can take them (never between
    get_config and register_pending of the same trial).
    Catalogue: GPFIFOSearcher (+ constrained / cost-aware variants) in the initial random phase over
    restrict_configurations (none / list / list containing the default first point / list that runs out) x
    allow_duplicates x points_to_evaluate (default / empty / explicit, partly outside the list) x failed trials x
    number of running trials, snapshot at EVERY event prefix; the same searchers with real (cheap) model fits:
    sequential histories (nothing pending when the model is used), opt_skip_period, finite space with duplicates,
    allowed lists, mode=max, max_size_data_for_model, two running trials; GPMultiFidelitySearcher inside
    HyperbandScheduler(searcher="bayesopt") (stopping and promotion, searcher_data rungs / rungs_and_last / all,
    gp_multitask / gp_independent) driven by a 3-worker workload with failures: trials are pending at rung levels or
    paused at the snapshot and report after the restore.
    Three situations in which the UNCHANGED library deviates have a clause of their own (CL_ESTRNG, CL_EXHAUSTED,
    CL_SUBSAMPLE below), so that everything else is still compared strictly.

monitor_seeded_searchers (C11)
    Property: two runs of the same scheduler / searcher constructed with the same arguments and the same random seed,
    fed the same events, return the same suggestions and decisions, independent of numpy's and Python's global
    generators, of other instances in the process, of hash randomisation and of OS entropy.

    Method: every component is constructed and driven three times: run A and run B with equal seed under different
    states of BOTH global generators (re-seeded before construction and before every call; run B additionally
    interleaves a decoy instance with another seed), run C with another seed (non-vacuity).  Searchers are seeded
    once with ``random_seed=int`` and once with ``random_seed_generator=RandomSeedGenerator(s)``.  A child process
    with another PYTHONHASHSEED repeats run A.

Bounded stand-in: run-time monitoring over an enumerated, seed-dependent catalogue.  Never counted as proved.
"""
import contextlib
import copy
import json
import logging
import os
import pickle
import random as _pyrandom
import subprocess
import sys
import time
import warnings

import numpy as np

sys.modules.setdefault("yahpo_gym", None)

MAX_VIOLATIONS_PER_CLAUSE = 5


# ======================================================================================================================
# shared helpers
# ======================================================================================================================


@contextlib.contextmanager
def _quiet():
    prev = logging.root.manager.disable
    logging.disable(logging.CRITICAL)
    try:
        with warnings.catch_warnings():
            warnings.simplefilter("ignore")
            yield
    finally:
        logging.disable(prev)


class _Book:
    """counts the checks per clause, keeps at most MAX_VIOLATIONS_PER_CLAUSE violations per clause"""

    def __init__(self, clauses):
        self.clauses = list(clauses)
        self.checks = {c: 0 for c in self.clauses}
        self.failed = {c: 0 for c in self.clauses}
        self.violations = []
        self.evaluations = 0

    def check(self, clause, ok, **details):
        if clause not in self.checks:
            raise KeyError("unknown clause %r" % clause)
        self.checks[clause] += 1
        self.evaluations += 1
        if not ok:
            self.failed[clause] += 1
            if self.failed[clause] <= MAX_VIOLATIONS_PER_CLAUSE:
                v = {"clause": clause}
                v.update(details)
                self.violations.append(json.loads(json.dumps(v, default=str)))
        return ok

    def finish(self):
        idle = [c for c, n in self.checks.items() if n == 0]
        if idle:
            raise RuntimeError("clauses without a single check: %s" % idle)


def _cv(v):
    """canonical scalar: numpy and python numbers of equal value are the same, a str is never equal to a number"""
    if v is None or isinstance(v, str):
        return v
    if isinstance(v, (bool, np.bool_)):
        return bool(v)
    if isinstance(v, (int, np.integer)):
        return int(v)
    if isinstance(v, (float, np.floating)):
        f = float(v)
        return f if f == f else "nan"
    if isinstance(v, dict):
        return {str(k): _cv(x) for k, x in sorted(v.items(), key=lambda kv: str(kv[0]))}
    if isinstance(v, (list, tuple)):
        return [_cv(x) for x in v]
    return repr(v)


def _ckey(config, skip=("elapsed_time", "trial_id")):
    """canonical form of a configuration (exact float values)"""
    if config is None:
        return None
    return [[str(k), _cv(v)] for k, v in sorted(config.items(), key=lambda kv: str(kv[0])) if k not in skip]


def _short(x, n=220):
    s = x if isinstance(x, str) else json.dumps(x, default=str)
    return s if len(s) <= n else s[: n - 3] + "..."


def _first_diff(a, b):
    for i in range(min(len(a), len(b))):
        if a[i] != b[i]:
            return i
    return None if len(a) == len(b) else min(len(a), len(b))


def _kind(v):
    if v is None:
        return "none"
    if isinstance(v, (bool, np.bool_)):
        return "bool"
    if isinstance(v, (int, np.integer)):
        return "int"
    if isinstance(v, (float, np.floating)):
        return "float"
    if isinstance(v, str):
        return "str"
    return type(v).__name__


def _tk():
    from syne_tune.backend.simulator_backend.time_keeper import SimulatedTimeKeeper

    k = SimulatedTimeKeeper()
    k.start_of_time()
    return k


class _Perturb:
    """puts numpy's global generator and Python's ``random`` module into a new state; called before construction and
    before every call into the object under test.  ``offset=None``: the generators are seeded once, then left alone."""

    def __init__(self, offset, base=424242):
        self.offset = offset
        self.count = 0
        np.random.seed(base % (2**31))
        _pyrandom.seed(base)

    def __call__(self):
        if self.offset is None:
            return
        self.count += 1
        np.random.seed((self.offset + 7919 * self.count) % (2**31))
        _pyrandom.seed(self.offset + 31 * self.count)
        np.random.rand(self.count % 3)
        _pyrandom.random()


# ======================================================================================================================
# asynchronous scheduler workload (used by both monitors)
# ======================================================================================================================


def _loss(config, epoch, noise=0.0):
    x = config.get("x", 0.5)
    x = float(x) if isinstance(x, (int, float, np.integer, np.floating)) else 0.5
    y = config.get("y", config.get("n", 0.5))
    y = float(y) if isinstance(y, (int, float, np.integer, np.floating)) else 0.5
    return (x - 0.3) ** 2 + 0.1 * abs(y - 0.6) + 1.0 / epoch + noise


def _run_async(make, steps, workers=3, max_t=9, fails=(), swap_at=None, swap=None, probe=None, perturb=None, decoy=None, wl_seed=12345, metric="loss", mode="min", result_extra=None):
    """drives a scheduler through a deterministic pseudo-workload with ``workers`` workers.  Trial ids in ``fails``
    raise an error instead of their second report.  Before step ``swap_at`` the scheduler is replaced by
    ``swap(scheduler)``.  Returns (trace, scheduler)."""
    from datetime import datetime

    from syne_tune.backend.trial_status import Trial

    P = perturb if perturb is not None else (lambda: None)
    P()
    sched = make()
    if decoy is not None:
        P()
        other = decoy()
    trace, running, epoch_of, next_id = [], {}, {}, 0
    wl = np.random.RandomState(wl_seed)
    t0 = datetime(2020, 1, 1)
    for step in range(steps):
        if probe is not None:
            probe(step, sched)
        if swap_at is not None and step == swap_at:
            sched = swap(sched)
        if decoy is not None and step % 3 == 0:
            P()
            sug = other.suggest(10000 + step)
            if sug is not None and sug.spawn_new_trial_id:
                other.on_trial_add(Trial(trial_id=10000 + step, config=dict(sug.config), creation_time=t0))
        if len(running) < workers:
            P()
            sug = sched.suggest(next_id)
            if sug is None:
                trace.append(["suggest", None])
                if not running:
                    break
                # nothing to start: let a running trial report instead
            elif sug.spawn_new_trial_id:
                cfg = dict(sug.config)
                trace.append(["start", next_id, _ckey(cfg), sug.checkpoint_trial_id])
                t = Trial(trial_id=next_id, config=cfg, creation_time=t0)
                P()
                sched.on_trial_add(t)
                running[next_id] = t
                epoch_of[next_id] = 0
                next_id += 1
                continue
            else:
                tid = sug.checkpoint_trial_id
                trace.append(["resume", tid, _ckey(sug.config)])
                running[tid] = Trial(trial_id=tid, config=dict(sug.config) if sug.config else {}, creation_time=t0)
                continue
        tid = sorted(running)[wl.randint(len(running))]
        noise = 0.01 * wl.rand()
        t = running[tid]
        if tid in fails and epoch_of[tid] >= 1:
            P()
            sched.on_trial_error(t)
            trace.append(["error", tid])
            del running[tid]
            continue
        epoch_of[tid] += 1
        ep = epoch_of[tid]
        val = _loss(t.config, ep, noise)
        if mode == "max":
            val = 2.0 - val
        result = {"epoch": ep, metric: val}
        if result_extra is not None:
            result.update(result_extra(t.config, ep))
        P()
        dec = sched.on_trial_result(t, result)
        trace.append(["result", tid, ep, str(dec)])
        if dec == "STOP":
            P()
            sched.on_trial_remove(t)
            del running[tid]
        elif dec == "PAUSE":
            P()
            sched.on_trial_remove(t)
            del running[tid]
        elif ep >= max_t:
            P()
            sched.on_trial_complete(t, result)
            del running[tid]
    return trace, sched


# ======================================================================================================================
# C16
# ======================================================================================================================

CL_FIFO = "restored-searcher-suggestions-equal-uninterrupted[GPFIFOSearcher]"
CL_MF = "restored-searcher-suggestions-and-decisions-equal-uninterrupted[GPMultiFidelitySearcher in HyperbandScheduler]"
CL_DILL = "dill-pickled-scheduler-suggestions-and-decisions-equal-uninterrupted[HyperbandScheduler(bayesopt)]"
CL_DATA = "restored-internal-data-equals-original-at-snapshot[observed, pending with resource and type, failed]"
CL_END = "restored-internal-data-equals-uninterrupted-at-end-of-history"
CL_TWICE = "nothing-suggested-twice-because-of-restore"
CL_SKIP = "nothing-skipped-because-of-restore"
CL_UNDISTURBED = "taking-a-snapshot-does-not-disturb-the-running-object"
CL_DILLOBJ = "dill-pickled-searcher-object-suggestions-equal-uninterrupted[GPFIFOSearcher and variants]"
CL_VARIANTS = "restored-searcher-suggestions-equal-uninterrupted[ConstrainedGPFIFOSearcher, CostAwareGPFIFOSearcher]"
# two situations in which the unchanged library is known to deviate get their own clause, so that everything else keeps
# being checked strictly: (a) the surrogate model's own generator (fantasy samples for pending evaluations, restarts
# of the fit) is not part of the snapshot, (b) a searcher restored after ALL entries of restrict_configurations have
# been suggested raises instead of returning None, (c) clone_from_state drops the down-sampling of the observations
# (max_size_data_for_model, default 500), which matters once there are more observations than that
CL_ESTRNG = "restored-searcher-suggestions-equal-uninterrupted[surrogate model's own generator advanced before the snapshot]"
CL_EXHAUSTED = "restored-searcher-suggestions-equal-uninterrupted[all of restrict_configurations suggested before the snapshot]"
CL_SUBSAMPLE = "restored-searcher-suggestions-equal-uninterrupted[more observations than max_size_data_for_model]"
C16_CLAUSES = [CL_FIFO, CL_MF, CL_DILL, CL_DILLOBJ, CL_VARIANTS, CL_DATA, CL_END, CL_TWICE, CL_SKIP, CL_UNDISTURBED, CL_ESTRNG, CL_EXHAUSTED, CL_SUBSAMPLE]

GP_CHEAP = dict(opt_nstarts=1, opt_maxiter=5, num_init_candidates=15, debug_log=False)


def _state_canon(searcher):
    """content of state_transformer.state, order-insensitive, python / numpy number types identified, but the kind of
    a pending evaluation's resource (int / str / none) kept"""
    st = searcher.state_transformer.state
    cft = {str(t): _ckey(c, skip=()) for t, c in st.config_for_trial.items()}
    obs = sorted(json.dumps([str(e.trial_id), _kind(e.trial_id), _cv(e.metrics)], sort_keys=True) for e in st.trials_evaluations)
    pend = sorted(json.dumps([str(p.trial_id), _kind(p.trial_id), _cv(p.resource), _kind(p.resource)]) for p in st.pending_evaluations)
    failed = sorted(json.dumps([str(t), _kind(t)]) for t in st.failed_trials)
    return {"configs": cft, "observed": obs, "pending": pend, "failed": failed}


def _state_diff(a, b):
    return {k: {"original": _short(a[k], 160), "restored": _short(b[k], 160)} for k in a if a[k] != b[k]}


def _estimator_generator_state(searcher):
    """state of the surrogate model's own generator (fantasy samples, restarts), or None if not accessible"""
    try:
        est = searcher.state_transformer.estimator
        ests = list(est.values()) if isinstance(est, dict) else [est]
        out = []
        for e in ests:
            rs = e.gpmodel.random_state.get_state()
            out.append((rs[0], rs[1].tobytes(), rs[2], rs[3], rs[4]))
        return out
    except Exception:
        return None


def _all_allowed_used(searcher, restrict, allow_duplicates):
    """restrict_configurations given, duplicates not allowed, and every allowed configuration belongs to some trial"""
    if restrict is None or allow_duplicates:
        return False
    keys = sorted(restrict[0])
    used = {json.dumps([_cv(c.get(k)) for k in keys]) for c in searcher.state_transformer.state.config_for_trial.values()}
    return all(json.dumps([_cv(c[k]) for k in keys]) in used for c in restrict)


def _transfer(state, mode):
    if mode == "as-handed-out":
        return state
    if mode == "pickle":
        return pickle.loads(pickle.dumps(state))
    import dill

    return dill.loads(dill.dumps(state))


MODES = ("pickle", "as-handed-out", "dill")
MODES_FIFO = MODES + ("dill(searcher object)",)


# -- GPFIFOSearcher, driven directly -----------------------------------------------------------------------------------


def _fifo_events(n, delay, fails):
    """trial i is suggested and registered as pending; its result (or failure) arrives ``delay`` suggestions later"""
    ev, q = [], []

    def out(j):
        ev.append(("fail" if j in fails else "result", j))

    for i in range(n):
        ev.append(("suggest", i))
        q.append(i)
        while len(q) > delay:
            out(q.pop(0))
    while q:
        out(q.pop(0))
    return ev


class _FifoDriver:
    def __init__(self, searcher, configs=None):
        self.s = searcher
        self.cfg = dict(configs or {})
        self.trace = []

    def apply(self, ev):
        kind, i = ev
        tid = str(i)
        if kind == "suggest":
            cfg = self.s.get_config(trial_id=tid)
            self.cfg[i] = cfg
            self.trace.append(_ckey(cfg))
            if cfg is not None:
                self.s.register_pending(tid, config=cfg)
            return
        cfg = self.cfg.get(i)
        if cfg is None:
            return
        if kind == "fail":
            self.s.evaluation_failed(tid)
        else:
            val = _loss(cfg, 1 + i % 3)
            self.s.on_trial_result(tid, cfg, {"loss": val, "cost": 1.0 + 0.5 * val, "constr": val - 0.9}, update=True)

    def run(self, events):
        for ev in events:
            self.apply(ev)
        return self


def _fifo_scenarios(tier, seed):
    from syne_tune.config_space import choice, randint
    from syne_tune.optimizer.schedulers.searchers.gp_fifo_searcher import GPFIFOSearcher

    rs = np.random.RandomState(1000 + seed)
    space_a = {"x": randint(0, 9), "y": choice(["a", "b", "c"])}  # 30 configurations; default first point (4 or 5, "a")
    space_t = {"a": choice(["p", "q", "r"]), "b": randint(0, 1)}  # 6 configurations: histories run into exhaustion
    mid_a = GPFIFOSearcher(space_a, metric="loss", debug_log=False)._points_to_evaluate[0]
    mid_a = {"x": int(mid_a["x"]), "y": str(mid_a["y"])}
    all_a = [{"x": x, "y": y} for x in range(10) for y in ("a", "b", "c")]
    not_mid = [c for c in all_a if c != mid_a]
    r12 = [not_mid[i] for i in sorted(rs.choice(len(not_mid), 11, replace=False))]
    restricts = {
        "A/unrestricted": (space_a, None),
        "A/11 allowed": (space_a, r12),
        "A/12 allowed incl. default point": (space_a, [mid_a] + r12),
        "T/unrestricted (6 configs)": (space_t, None),
        "T/4 allowed": (space_t, [{"a": "p", "b": 1}, {"a": "q", "b": 0}, {"a": "r", "b": 0}, {"a": "r", "b": 1}]),
    }
    p2es = {
        "default": lambda sp, rc: None,
        "empty": lambda sp, rc: [],
        "two points": lambda sp, rc: ([dict(rc[2]), {"x": 3, "y": "c"}, {"x": 8}] if sp is space_a and rc else [{"x": 3, "y": "c"}, {"x": 8}] if sp is space_a else [{"a": "q", "b": 0}, {"a": "p"}]),
    }
    out = []
    names = {None: "GPFIFOSearcher", "constrained": "ConstrainedGPFIFOSearcher", "cost": "CostAwareGPFIFOSearcher"}
    for cls in (None, "constrained", "cost"):
        for rname, (sp, rc) in restricts.items():
            for dup in (False, True):
                for pname, p2e in p2es.items():
                    for fails in ((), (1,), (0, 2)):
                        for delay in (0, 2):
                            if cls is not None and (pname == "empty" or fails == (1,)):
                                continue  # the variants share this code with GPFIFOSearcher: a thinner grid
                            out.append(dict(name="%s random phase: %s, allow_duplicates=%s, points_to_evaluate=%s, failing trials %s, %d running" % (names[cls], rname, dup, pname, list(fails), delay + 1), cls=cls, space=sp, restrict=rc, dup=dup, p2e=p2e(sp, rc), fails=fails, delay=delay, n=7 if sp is space_a else 8, kw=dict(num_init_random=100), factors=(cls, rname, dup, pname, fails, delay)))
    if tier == "quick":
        # pairwise cover of the option values, plus seed-dependent extras
        seen, keep, rest = set(), [], []
        order = list(rs.permutation(len(out)))
        for i in order:
            f = out[i]["factors"]
            pairs = {(a, f[a], b, f[b]) for a in range(len(f)) for b in range(a + 1, len(f))}
            if pairs - seen:
                seen |= pairs
                keep.append(out[i])
            else:
                rest.append(out[i])
        out = keep + rest[:16]
    return out


def _make_fifo(sc, sd):
    from syne_tune.optimizer.schedulers.searchers.gp_fifo_searcher import GPFIFOSearcher

    cls, extra = GPFIFOSearcher, {}
    if sc.get("cls") == "constrained":
        from syne_tune.optimizer.schedulers.searchers.constrained.constrained_gp_fifo_searcher import ConstrainedGPFIFOSearcher

        cls, extra = ConstrainedGPFIFOSearcher, dict(constraint_attr="constr", scheduler="fifo")
    elif sc.get("cls") == "cost":
        from syne_tune.optimizer.schedulers.searchers.cost_aware.cost_aware_gp_fifo_searcher import CostAwareGPFIFOSearcher

        cls, extra = CostAwareGPFIFOSearcher, dict(cost_attr="cost", scheduler="fifo")

    def make():
        kw = dict(GP_CHEAP)
        kw.update(extra)
        kw.update(sc["kw"])
        if sc["restrict"] is not None:
            kw.update(restrict_configurations=copy.deepcopy(sc["restrict"]), skip_local_optimization=True)
        return cls(dict(sc["space"]), metric="loss", points_to_evaluate=copy.deepcopy(sc["p2e"]), allow_duplicates=sc["dup"], random_seed=sd, **kw)

    return make


def _check_twice_and_skipped(book, U_all, prefix, rest, where):
    """U_all: all suggestions of the uninterrupted object; prefix + rest: those of S before and R after the snapshot"""

    def keys(seq):
        return [json.dumps(c) for c in seq if c is not None]

    u, r = keys(U_all), keys(list(prefix) + list(rest))
    u_twice = {c for c in u if u.count(c) > 1}
    twice = sorted({c for c in r if r.count(c) > 1} - u_twice)
    book.check(CL_TWICE, not twice, suggested_twice=_short(twice), **where)
    if len([c for c in U_all if c is not None]) == len([c for c in list(prefix) + list(rest) if c is not None]) or None in U_all:
        # same number of suggestions (or the uninterrupted object ran dry): the same SET must have been covered
        skipped = sorted(set(u) - set(r))
        book.check(CL_SKIP, not skipped, skipped=_short(skipped), **where)


def _fifo_restore_runs(book, sc, sd, positions, mode_of, samples, est_clause=False):
    make = _make_fifo(sc, sd)
    events = _fifo_events(sc["n"], sc["delay"], set(sc["fails"]))
    try:
        U = _FifoDriver(make()).run(events)
    except Exception as e:  # the uninterrupted run itself must work
        raise RuntimeError("uninterrupted run failed for %s: %r" % (sc["name"], e))
    u_end = _state_canon(U.s)
    fresh_gen = _estimator_generator_state(make())
    if len(samples) < 4:
        samples.append({"scenario": sc["name"], "events": len(events), "uninterrupted_suggestions": _short(U.trace, 160)})
    base = CL_VARIANTS if sc.get("cls") else CL_FIFO
    for k in positions:
        if k > len(events):
            continue
        mode = mode_of(k)
        where = {"scenario": sc["name"], "random_seed": sd, "snapshot_after_events": k, "events_before": _short([list(e) for e in events[:k]], 120), "state": mode}
        nsug = sum(1 for e in events[:k] if e[0] == "suggest")
        # the twin that is snapshotted (and then dropped, as after a restart)
        S = _FifoDriver(make()).run(events[:k])
        if S.trace != U.trace[:nsug]:
            raise RuntimeError("twin prefix differs from the uninterrupted run (not reproducible): %s" % sc["name"])
        at_snapshot = _state_canon(S.s)
        if mode.startswith("dill("):
            clause = CL_DILLOBJ  # the whole object graph is copied: nothing is left to the freshly constructed searcher
        elif _all_allowed_used(S.s, sc["restrict"], sc["dup"]):
            clause = CL_EXHAUSTED
        elif est_clause and (fresh_gen is None or _estimator_generator_state(S.s) != fresh_gen):
            clause = CL_ESTRNG
        else:
            clause = sc.get("own_clause", base)
        try:
            if clause == CL_DILLOBJ:
                import dill

                R = dill.loads(dill.dumps(S.s))
            else:
                state = _transfer(S.s.get_state(), mode)
                R = make().clone_from_state(state)
            restored = _state_canon(R)
            D = _FifoDriver(R, S.cfg).run(events[k:])
        except Exception as e:
            book.check(clause, False, raised=repr(e)[:300], suggestions_before=_short(S.trace, 200), **where)
            continue
        book.check(CL_DATA, restored == at_snapshot, difference=_state_diff(at_snapshot, restored), **where)
        same = D.trace == U.trace[nsug:]
        j = _first_diff(D.trace, U.trace[nsug:])
        book.check(clause, same, first_difference_at_suggestion=None if j is None else nsug + j, uninterrupted=_short(U.trace[nsug:][j:j + 2] if j is not None else ""), restored=_short(D.trace[j:j + 2] if j is not None else ""), **where)
        if same:
            end = _state_canon(R)
            book.check(CL_END, end == u_end, difference=_state_diff(u_end, end), **where)
        if clause in (base, CL_DILLOBJ):
            _check_twice_and_skipped(book, U.trace, S.trace, D.trace, where)


def _fifo_model_scenarios(tier, seed):
    from syne_tune.config_space import choice, randint, uniform

    rs = np.random.RandomState(2000 + seed)
    cont = {"x": uniform(0.0, 1.0), "y": uniform(0.0, 1.0)}
    tiny = {"a": choice(["p", "q"]), "b": randint(0, 1)}
    pool = [{"x": float(round(a, 3)), "y": float(round(b, 3))} for a, b in rs.rand(10, 2)]
    # opt_skip_period=2: from 2 observations on every second fit is skipped, the surrogate then works with the
    # hyper-parameters of the previous fit (both the counter and the hyper-parameters are part of the snapshot)
    mb = dict(num_init_random=2, opt_skip_init_length=2, opt_skip_period=2)
    out = [
        dict(name="ConstrainedGPFIFOSearcher model-based, sequential, continuous space", cls="constrained", space=cont, restrict=None, dup=False, p2e=None, fails=(), delay=0, n=5, kw=dict(num_init_random=2)),
        dict(name="CostAwareGPFIFOSearcher model-based, sequential, continuous space", cls="cost", space=cont, restrict=None, dup=False, p2e=[], fails=(1,), delay=0, n=5, kw=dict(num_init_random=2)),
        dict(name="GPFIFOSearcher model-based, sequential, continuous space, mode=max, acquisition function as initial scoring", space=cont, restrict=None, dup=False, p2e=None, fails=(), delay=0, n=6, kw=dict(num_init_random=2, mode="max", initial_scoring="acq_func")),
        # sequential histories: no evaluation is pending when the model is used, the surrogate's own generator is idle
        dict(name="GPFIFOSearcher model-based, sequential, continuous space, opt_skip_period=2", space=cont, restrict=None, dup=False, p2e=None, fails=(), delay=0, n=8, kw=mb),
        dict(name="GPFIFOSearcher model-based, sequential, 4 configurations, allow_duplicates=True", space=tiny, restrict=None, dup=True, p2e=[], fails=(), delay=0, n=8, kw=mb),
        dict(name="GPFIFOSearcher model-based, sequential, 10 allowed configurations", space=cont, restrict=pool, dup=False, p2e=[], fails=(), delay=0, n=6, kw=mb),
        dict(name="GPFIFOSearcher model-based, sequential, 10 allowed configurations, allow_duplicates=True", space=cont, restrict=pool, dup=True, p2e=[dict(pool[3])], fails=(2,), delay=0, n=6, kw=mb),
        # the surrogate is fitted to a random subset of at most 4 observations (the default limit of 500 made small)
        dict(name="GPFIFOSearcher model-based, sequential, continuous space, max_size_data_for_model=4", space=cont, restrict=None, dup=False, p2e=None, fails=(), delay=0, n=8, kw=dict(num_init_random=2, max_size_data_for_model=4), own_clause=CL_SUBSAMPLE),
        # two trials running: evaluations are pending when the model is used (fantasies from the surrogate's generator)
        dict(name="GPFIFOSearcher model-based, 2 running, continuous space", space=cont, restrict=None, dup=False, p2e=None, fails=(), delay=1, n=6, kw=mb),
    ]
    return out


# -- GPMultiFidelitySearcher inside HyperbandScheduler -----------------------------------------------------------------


def _mf_scenarios(tier, seed):
    from syne_tune.config_space import choice, randint, uniform

    rs = np.random.RandomState(3000 + seed)
    cont = {"x": uniform(0.0, 1.0), "y": uniform(0.0, 1.0)}
    fin = {"x": randint(0, 9), "c": choice(["a", "b", "c"])}
    allowed = [{"x": int(x), "c": str(c)} for x, c in zip(rs.permutation(10), ["a", "b", "c", "a", "b", "c", "a", "b", "c", "a"])]
    rnd = dict(num_init_random=100)
    out = []
    for tp in ("stopping", "promotion"):
        out.append(dict(name="HyperbandScheduler(%s, bayesopt) random phase, continuous space, 1 failing trial" % tp, type=tp, space=cont, so=dict(rnd), p2e=None, fails=(1,), steps=30, model=False))
        out.append(dict(name="HyperbandScheduler(%s, bayesopt) random phase, 10 allowed configurations, points_to_evaluate" % tp, type=tp, space=fin, so=dict(rnd, restrict_configurations=allowed), p2e=[dict(allowed[4]), {"x": 1, "c": "b"}], fails=(2,), steps=34, model=False))
        out.append(dict(name="HyperbandScheduler(%s, bayesopt) random phase, 10 allowed configurations, allow_duplicates=True" % tp, type=tp, space=fin, so=dict(rnd, restrict_configurations=allowed, allow_duplicates=True), p2e=[], fails=(), steps=30, model=False))
        out.append(dict(name="HyperbandScheduler(%s, bayesopt) model-based from the 3rd trial on" % tp, type=tp, space=cont, so=dict(num_init_random=2), p2e=None, fails=(), steps=16 if tier == "quick" else 22, model=True))
    out.append(dict(name="HyperbandScheduler(stopping, bayesopt, searcher_data=rungs_and_last) random phase, 1 failing trial", type="stopping", space=cont, so=dict(rnd), p2e=[], fails=(0,), steps=30, model=False, sched_kw=dict(searcher_data="rungs_and_last")))
    out.append(dict(name="HyperbandScheduler(promotion, bayesopt, searcher_data=all) random phase", type="promotion", space=cont, so=dict(rnd), p2e=None, fails=(), steps=30, model=False, sched_kw=dict(searcher_data="all")))
    out.append(dict(name="HyperbandScheduler(stopping, bayesopt, model=gp_independent) model-based from the 3rd trial on", type="stopping", space=cont, so=dict(num_init_random=2, model="gp_independent"), p2e=None, fails=(), steps=14 if tier == "quick" else 20, model=True, configure_first=True))
    return out


def _make_mf(sc, sd):
    from syne_tune.optimizer.schedulers.hyperband import HyperbandScheduler

    def make():
        so = dict(GP_CHEAP)
        so.update(copy.deepcopy(sc["so"]))
        if "restrict_configurations" in so:
            so["skip_local_optimization"] = True
        s = HyperbandScheduler(dict(sc["space"]), searcher="bayesopt", type=sc["type"], metric="loss", mode="min", resource_attr="epoch", max_t=9, grace_period=1, reduction_factor=3, brackets=1, random_seed=sd, search_options=so, points_to_evaluate=copy.deepcopy(sc["p2e"]), **sc.get("sched_kw", {}))
        s.set_time_keeper(_tk())
        if sc.get("configure_first"):
            # model="gp_independent" completes the surrogate only in configure_scheduler (rung levels); neither
            # get_state() nor clone_from_state() works on a searcher that was never configured.  Not counted here.
            s.searcher.configure_scheduler(s)
        return s

    return make


def _mf_restore_runs(book, sc, sd, positions, variants, samples):
    import dill

    make = _make_mf(sc, sd)
    fails = set(sc["fails"])
    restrict, dup = sc["so"].get("restrict_configurations"), bool(sc["so"].get("allow_duplicates"))
    fresh_gen = _estimator_generator_state(make().searcher)
    advanced_at = []

    def probe(step, sched):
        if not advanced_at and (fresh_gen is None or _estimator_generator_state(sched.searcher) != fresh_gen):
            advanced_at.append(step)

    U_trace, U = _run_async(make, sc["steps"], fails=fails, probe=probe)
    u_end = _state_canon(U.searcher)
    first_adv = advanced_at[0] if advanced_at else sc["steps"]
    if len(samples) < 4:
        samples.append({"scenario": sc["name"], "steps": sc["steps"], "surrogate_generator_first_used_before_step": first_adv, "uninterrupted_trace_head": _short(U_trace[:4], 200)})
    u_starts = [e[2] for e in U_trace if e[0] == "start"]
    for k in positions(first_adv):
        if k >= sc["steps"]:
            continue
        for variant in variants(k):
            where = {"scenario": sc["name"], "random_seed": sd, "snapshot_before_step": k, "restore": variant}
            info = {}

            def swap(sched, variant=variant, info=info):
                old = sched.searcher
                info["at_snapshot"] = _state_canon(old)
                info["pending"] = sorted(json.loads(x)[::2] for x in info["at_snapshot"]["pending"])
                if variant == "dill(scheduler)":
                    info["clause"] = CL_DILL
                    new_sched = dill.loads(dill.dumps(sched))
                    info["restored"] = _state_canon(new_sched.searcher)
                    return new_sched
                if _all_allowed_used(old, restrict, dup):
                    info["clause"] = CL_EXHAUSTED
                elif fresh_gen is None or _estimator_generator_state(old) != fresh_gen:
                    info["clause"] = CL_ESTRNG
                else:
                    info["clause"] = CL_MF
                state = _transfer(old.get_state(), variant.split("/")[1])
                fresh = make()  # as after a restart: a newly constructed scheduler and searcher
                new = fresh.searcher.clone_from_state(state)
                new.configure_scheduler(sched)  # what the scheduler does with its searcher before using it
                info["restored"] = _state_canon(new)
                sched._searcher = new
                return sched

            try:
                trace, R = _run_async(make, sc["steps"], fails=fails, swap_at=k, swap=swap)
            except Exception as e:
                book.check(info.get("clause", CL_DILL if variant.startswith("dill(") else CL_MF), False, raised=repr(e)[:300], **where)
                continue
            if "clause" not in info:
                continue  # the history ended before step k
            clause = info["clause"]
            where["pending_evaluations_at_snapshot"] = _short(info["pending"], 120)
            book.check(CL_DATA, info["restored"] == info["at_snapshot"], difference=_state_diff(info["at_snapshot"], info["restored"]), **where)
            same = trace == U_trace
            j = _first_diff(trace, U_trace)
            book.check(clause, same, first_difference_at_event=j, uninterrupted=_short(U_trace[j:j + 1] if j is not None else ""), restored=_short(trace[j:j + 1] if j is not None else ""), **where)
            if same:
                end = _state_canon(R.searcher)
                book.check(CL_END, end == u_end, difference=_state_diff(u_end, end), **where)
            if clause in (CL_MF, CL_DILL) and not dup:
                starts = [e[2] for e in trace if e[0] == "start"]
                _check_twice_and_skipped(book, u_starts, [], starts, where)


def _undisturbed_runs(book, tier, seed, samples):
    """the tuner pickles the scheduler and carries on with the ORIGINAL: snapshots must not change the running object"""
    import dill

    sc = _mf_scenarios(tier, seed)[0]
    make = _make_mf(sc, 50 + seed)
    U_trace, _ = _run_async(make, 24)
    for what in ("dill.dumps(scheduler)", "searcher.get_state()"):
        class Snap:
            """forwards everything, takes a snapshot before every suggest / on_trial_result"""

            def __init__(self, inner):
                object.__setattr__(self, "_inner", inner)

            def _snap(self):
                if what.startswith("dill"):
                    dill.dumps(self._inner)
                else:
                    pickle.dumps(self._inner.searcher.get_state())

            def suggest(self, *a, **kw):
                self._snap()
                return self._inner.suggest(*a, **kw)

            def on_trial_result(self, *a, **kw):
                self._snap()
                return self._inner.on_trial_result(*a, **kw)

            def __getattr__(self, nm):
                return getattr(self._inner, nm)

        where = {"scenario": sc["name"], "snapshot": what + " before every call"}
        try:
            trace, _ = _run_async(lambda: Snap(make()), 24)
        except Exception as e:
            book.check(CL_UNDISTURBED, False, raised=repr(e)[:300], **where)
            continue
        j = _first_diff(trace, U_trace)
        book.check(CL_UNDISTURBED, trace == U_trace, first_difference_at_event=j, **where)
    # searcher level
    fsc = _fifo_scenarios("quick", seed)[0]
    mk = _make_fifo(fsc, 60 + seed)
    events = _fifo_events(fsc["n"], fsc["delay"], set(fsc["fails"]))
    U = _FifoDriver(mk()).run(events)
    D = _FifoDriver(mk())
    for ev in events:
        pickle.dumps(D.s.get_state())
        D.apply(ev)
    book.check(CL_UNDISTURBED, D.trace == U.trace, scenario=fsc["name"], snapshot="pickle.dumps(searcher.get_state()) before every event")


def monitor_restore_gp(tier="quick", seed=0):
    quick = tier == "quick"
    book = _Book(C16_CLAUSES)
    samples = []
    distinct = 0
    t0 = time.time()
    with _quiet():
        # (1) GPFIFOSearcher, initial random phase: snapshot at EVERY event prefix
        fs = _fifo_scenarios(tier, seed)
        for i, sc in enumerate(fs):
            events = _fifo_events(sc["n"], sc["delay"], set(sc["fails"]))
            for rep_ in range(1 if quick else 2):
                _fifo_restore_runs(book, sc, 7 + 13 * seed + i + 1000 * rep_, range(len(events) + 1), lambda k, i=i, r=rep_: MODES_FIFO[(i + k + r) % 4], samples)
            distinct += 1
        t1 = time.time()
        # (2) GPFIFOSearcher with real model fits
        ms = _fifo_model_scenarios(tier, seed)
        for i, sc in enumerate(ms):
            events = _fifo_events(sc["n"], sc["delay"], set(sc["fails"]))
            if quick:
                # before the first suggestion, in the random phase, just before and after the first model-based suggestion, later
                pos = sorted({0, 3, 4, 6, 8 + (seed + i) % 3, 10})
            else:
                pos = range(len(events) + 1)
            _fifo_restore_runs(book, sc, 31 + 17 * seed + i, pos, lambda k, i=i: MODES_FIFO[(i + k) % 4], samples, est_clause=True)
            distinct += 1
        t2 = time.time()
        # (3) multi-fidelity searcher inside the asynchronous Hyperband scheduler
        mf = _mf_scenarios(tier, seed)
        for i, sc in enumerate(mf):
            if sc["model"]:
                # every position up to the first use of the surrogate (trials pending at rung levels, their results
                # arrive after the restore, the model is used for the first time AFTER the restore), a few later ones
                def pos(first_adv, i=i, steps=sc["steps"]):
                    return list(range(0, steps)) if not quick else sorted(set(range(0, first_adv + 1)) | {first_adv + 2 + (seed + i) % 2, first_adv + 5})
            else:

                def pos(first_adv, i=i, steps=sc["steps"]):
                    return list(range(0, steps)) if not quick else sorted({0} | set(range((seed + i) % 2, steps, 2)))

            def variants(k, i=i, model=sc["model"]):
                v = ["searcher-state/%s" % MODES[(i + k) % 3]]
                if (k + i) % 2 == 0 or not quick:
                    v.append("dill(scheduler)")
                return v

            _mf_restore_runs(book, sc, 11 + 19 * seed + i, pos, variants, samples)
            distinct += 1
        t3 = time.time()
        _undisturbed_runs(book, tier, seed, samples)
    book.finish()
    return {
        "evaluations": book.evaluations,
        "distinct": distinct,
        "clauses": list(C16_CLAUSES),
        "violations": book.violations,
        "samples": samples[:4],
        "summary": "%d GPFIFOSearcher / constrained / cost-aware random-phase scenarios (restrict_configurations x allow_duplicates x points_to_evaluate x failures x running trials) with a snapshot at every event prefix, %d with model fits, %d HyperbandScheduler(bayesopt) scenarios (stopping / promotion, <= 34 steps, 3 workers); restore into a fresh object from the state as handed out / pickled / dilled, and dill of the whole searcher / scheduler; %d checks in the least exercised clause; %.0f+%.0f+%.0f s" % (len(fs), len(ms), len(mf), min(book.checks.values()), t1 - t0, t2 - t1, t3 - t2),
    }


# ======================================================================================================================
# C11
# ======================================================================================================================

CL11_INT = "equal-random_seed-equal-suggestions-whatever-the-global-generators-hold[%s]"
CL11_GEN = "equal-random_seed_generator-equal-suggestions-whatever-the-global-generators-hold[%s]"
CL11_DIFF = "different-seeds-give-different-suggestions[%s]"
CL11_HASH = "independent-of-hash-randomisation"


def _result_for(cfg, i):
    val = _loss(cfg, 1 + i % 3)
    return {"loss": val, "cost": 1.0 + 0.5 * val, "constr": val - 0.9, "f1": val, "f2": 1.5 - val + 0.1 * (i % 4), "epoch": 1}


def _searcher_component(build, n, fails=(), silent=()):
    """build(**seed_kw) -> searcher.  Trials in ``fails`` fail, trials in ``silent`` never report (stay pending)."""

    def run(seed_kw, P, decoy_kw):
        P()
        s = build(**seed_kw())
        d = None
        if decoy_kw is not None:
            P()
            d = build(**decoy_kw())
        trace = []
        for i in range(n):
            if d is not None:
                P()
                dc = d.get_config(trial_id=str(i))
                if dc is not None:
                    d.register_pending(str(i), config=dc)
                    d.on_trial_result(str(i), dc, _result_for(dc, i + 1), update=True)
            P()
            cfg = s.get_config(trial_id=str(i))
            trace.append(_ckey(cfg))
            if cfg is None:
                continue
            P()
            s.register_pending(str(i), config=cfg)
            if i in silent:
                continue
            P()
            if i in fails:
                s.evaluation_failed(str(i))
            else:
                s.on_trial_result(str(i), cfg, _result_for(cfg, i), update=True)
        return trace

    return run


def _scheduler_component(build, steps, workers=3, fails=(), **kw):
    """build(**seed_kw) -> scheduler, driven by the asynchronous workload"""

    def run(seed_kw, P, decoy_kw):
        trace, _ = _run_async(lambda: build(**seed_kw()), steps, workers=workers, fails=set(fails), perturb=P, decoy=(lambda: build(**decoy_kw())) if decoy_kw is not None else None, **kw)
        return trace

    return run


def _pbt_component(build, population, rounds, max_t):
    """round-robin driver: all members of the population report once per round (so that several trials are scored at
    the same time and the upper quantile has more than one member); a stopped trial is replaced at once"""
    from datetime import datetime

    from syne_tune.backend.trial_status import Trial

    def score(cfg, epoch):
        x = float(cfg["x"])
        return abs(np.log10(x) + 2.4) / 3.0 + 0.002 * float(cfg["n"]) + 0.1 * float(cfg["w"]) + 0.01 * 0.8**epoch

    def run(seed_kw, P, decoy_kw):
        P()
        sched = build(**seed_kw())
        d = None
        if decoy_kw is not None:
            P()
            d = build(**decoy_kw())
        trace, running, next_id = [], {}, [0]

        def start():
            if d is not None and next_id[0] < 4:
                P()
                ds = d.suggest(next_id[0])
                d.on_trial_add(Trial(trial_id=next_id[0], config=ds.config, creation_time=datetime(2020, 1, 1)))
            P()
            sug = sched.suggest(next_id[0])
            trace.append(["start", next_id[0], _ckey(sug.config), sug.checkpoint_trial_id])
            t = Trial(trial_id=next_id[0], config=sug.config, creation_time=datetime(2020, 1, 1))
            P()
            sched.on_trial_add(t)
            running[next_id[0]] = [t, 0]
            next_id[0] += 1

        for _ in range(population):
            start()
        for _ in range(rounds):
            for tid in sorted(running):
                t, ep = running[tid]
                ep += 1
                running[tid][1] = ep
                P()
                dec = sched.on_trial_result(t, {"epoch": ep, "loss": score(t.config, ep)})
                trace.append(["result", tid, ep, str(dec)])
                if dec != "CONTINUE":
                    del running[tid]
                    P()
                    sched.on_trial_remove(t)
                    start()
        sources = [e[3] for e in trace if e[0] == "start" and e[3] is not None]
        if len(sources) < 5 or len(set(sources)) < 3:
            # (with a single member in the upper quantile the choice of the clone source would not be random at all)
            raise RuntimeError("PBT workload not informative: %d exploit steps from %d different source trials" % (len(sources), len(set(sources))))
        return trace

    return run


def _dehb_component(build, num_suggests, failing):
    """synchronous driver: every suggested trial runs until it is stopped / paused; trials in ``failing`` fail at once"""
    from datetime import datetime

    from syne_tune.backend.trial_status import Trial

    def run(seed_kw, P, decoy_kw):
        P()
        sched = build(**seed_kw())
        d = None
        if decoy_kw is not None:
            P()
            d = build(**decoy_kw())
        trace = []
        for step in range(num_suggests):
            if d is not None and step < 3:
                P()
                ds = d.suggest(step)
                if ds is not None and ds.spawn_new_trial_id:
                    d.on_trial_add(Trial(trial_id=step, config=ds.config, creation_time=datetime(2020, 1, 1)))
            P()
            sug = sched.suggest(step)
            if sug is None:
                trace.append(["suggest", None])
                break
            cfg = sug.config
            tid = step if sug.spawn_new_trial_id else sug.checkpoint_trial_id
            trace.append(["suggest", step, bool(sug.spawn_new_trial_id), sug.checkpoint_trial_id, _ckey(cfg)])
            t = Trial(trial_id=tid, config=cfg, creation_time=datetime(2020, 1, 1))
            if sug.spawn_new_trial_id:
                P()
                sched.on_trial_add(t)
            if step in failing:
                P()
                sched.on_trial_error(t)
                trace.append(["error", tid])
                continue
            for epoch in range(1, 10):
                P()
                dec = sched.on_trial_result(t, {"loss": _loss(cfg, epoch), "epoch": epoch})
                trace.append(["result", tid, epoch, str(dec)])
                if dec != "CONTINUE":
                    break
        return trace

    return run


def _c11_components(tier, seed):
    """name -> (seed modes, run(seed_kw, perturb, decoy_kw) -> trace)"""
    from syne_tune.config_space import choice, finrange, logfinrange, loguniform, ordinal, randint, uniform
    from syne_tune.optimizer.schedulers.fifo import FIFOScheduler
    from syne_tune.optimizer.schedulers.hyperband import HyperbandScheduler
    from syne_tune.optimizer.schedulers.pbt import PopulationBasedTraining
    from syne_tune.optimizer.schedulers.searchers.random_grid_searcher import GridSearcher, RandomSearcher
    from syne_tune.optimizer.schedulers.searchers.regularized_evolution import RegularizedEvolution
    from syne_tune.optimizer.schedulers.searchers.searcher_factory import searcher_factory
    from syne_tune.optimizer.schedulers.synchronous.dehb import DifferentialEvolutionHyperbandScheduler

    quick = tier == "quick"
    rich = {"lr": logfinrange(1e-5, 1e-1, 9), "w": finrange(16, 1024, 8, cast_int=True), "x": uniform(0.0, 1.0), "n": randint(1, 20), "c": choice(["a", "b", "c"]), "o": ordinal([1, 2, 4, 8]), "l": loguniform(1e-3, 1.0)}
    small = {"x": uniform(0.0, 1.0), "f": finrange(0.1, 0.9, 5), "c": choice(["a", "b", "c"])}
    grid = {"n": randint(1, 4), "c": choice(["a", "b", "c"]), "f": finrange(0.1, 0.5, 3)}
    allowed = [{"n": n, "c": c, "f": f} for n in (1, 2, 3, 4) for c in ("a", "b", "c") for f in (0.1, 0.30000000000000004, 0.5)][::3]
    gp = dict(debug_log=False, num_init_random=3, opt_nstarts=2, opt_maxiter=5, num_init_candidates=15)
    comps = {}
    both = ("int", "gen")
    nrand = 8 if quick else 20
    comps["RandomSearcher"] = (both, _searcher_component(lambda **sk: RandomSearcher(dict(rich), metric="loss", **sk), nrand, fails=(2,)))
    comps["RandomSearcher(restrict_configurations, allow_duplicates)"] = (both, _searcher_component(lambda **sk: RandomSearcher(dict(grid), metric="loss", points_to_evaluate=[], restrict_configurations=copy.deepcopy(allowed), allow_duplicates=True, **sk), nrand))
    comps["GridSearcher"] = (both, _searcher_component(lambda **sk: GridSearcher(dict(grid), metric="loss", **sk), nrand))
    comps["RegularizedEvolution"] = (both, _searcher_component(lambda **sk: RegularizedEvolution(dict(rich), metric="loss", population_size=4, sample_size=3, **sk), 14 if quick else 30))
    ngp = 6 if quick else 9
    comps["GPFIFOSearcher"] = (both, _searcher_component(lambda **sk: searcher_factory("bayesopt", config_space=dict(small), metric="loss", mode="min", scheduler="fifo", **gp, **sk), ngp, fails=(2,), silent=(1,)))
    comps["GPFIFOSearcher(restrict_configurations)"] = (both, _searcher_component(lambda **sk: searcher_factory("bayesopt", config_space=dict(grid), metric="loss", mode="min", scheduler="fifo", points_to_evaluate=[], restrict_configurations=copy.deepcopy(allowed), skip_local_optimization=True, **gp, **sk), ngp))
    comps["ConstrainedGPFIFOSearcher"] = (both, _searcher_component(lambda **sk: searcher_factory("bayesopt_constrained", config_space=dict(small), metric="loss", mode="min", scheduler="fifo", constraint_attr="constr", **gp, **sk), ngp - 1, silent=(0,)))
    comps["CostAwareGPFIFOSearcher"] = (both, _searcher_component(lambda **sk: searcher_factory("bayesopt_cost", config_space=dict(small), metric="loss", mode="min", scheduler="fifo", cost_attr="cost", **gp, **sk), ngp - 1, silent=(0,)))

    def mf(**sk):
        s = searcher_factory("bayesopt", config_space=dict(small), metric="loss", mode="min", scheduler="hyperband_stopping", resource_attr="epoch", max_epochs=9, **gp, **sk)
        h = HyperbandScheduler(dict(small), searcher=s, type="stopping", metric="loss", mode="min", resource_attr="epoch", max_t=9, grace_period=1, reduction_factor=3, brackets=1, random_seed=0)
        h.set_time_keeper(_tk())
        return h

    comps["GPMultiFidelitySearcher (searcher object inside HyperbandScheduler)"] = (both, _scheduler_component(mf, 14 if quick else 22))

    def fifo_bo(random_seed):
        f = FIFOScheduler(dict(small), searcher="bayesopt", metric="loss", mode="min", random_seed=random_seed, search_options=dict(gp))
        f.set_time_keeper(_tk())
        return f

    comps["FIFOScheduler(bayesopt)"] = (("int",), _scheduler_component(fifo_bo, 12 if quick else 20, workers=2, max_t=2))

    # multi-objective searcher with two deterministic surrogates and the DEFAULT (randomly scalarised LCB) scoring
    try:
        from syne_tune.optimizer.schedulers.multiobjective.multi_surrogate_multi_objective_searcher import MultiObjectiveMultiSurrogateSearcher
        from syne_tune.optimizer.schedulers.searchers.bayesopt.models.sklearn_model import SKLearnEstimatorWrapper
        from syne_tune.optimizer.schedulers.searchers.bayesopt.sklearn.estimator import SKLearnEstimator
        from syne_tune.optimizer.schedulers.searchers.bayesopt.sklearn.predictor import SKLearnPredictor

        class _Ridge(SKLearnPredictor):
            def __init__(self, X, w):
                self.X, self.w = X, w

            def predict(self, X, return_std=True):
                mean = np.hstack([X, np.ones((X.shape[0], 1))]) @ self.w
                dist = np.sqrt(((X[:, None, :] - self.X[None, :, :]) ** 2).sum(axis=2))
                return mean, dist.min(axis=1) + 1e-3

        class _RidgeEstimator(SKLearnEstimator):
            def fit(self, X, y, update_params):
                Phi = np.hstack([X, np.ones((X.shape[0], 1))])
                w = np.linalg.solve(Phi.T @ Phi + 1e-3 * np.eye(Phi.shape[1]), Phi.T @ y.reshape((-1,)))
                return _Ridge(X.copy(), w)

        mo_space = {"x": uniform(0.0, 1.0), "y": uniform(0.0, 1.0), "n": randint(1, 20)}

        def mo(**sk):
            return MultiObjectiveMultiSurrogateSearcher(config_space=dict(mo_space), metric=["f1", "f2"], mode=["min", "min"], estimators={m: SKLearnEstimatorWrapper(_RidgeEstimator(), active_metric=m) for m in ("f1", "f2")}, points_to_evaluate=[], num_initial_random_choices=3, num_initial_candidates=40, **sk)

        comps["MultiObjectiveMultiSurrogateSearcher(default scoring)"] = (both, _searcher_component(mo, 10 if quick else 16))
    except ImportError:
        pass
    try:
        from syne_tune.optimizer.schedulers.multiobjective.multi_objective_regularized_evolution import MultiObjectiveRegularizedEvolution
        from syne_tune.optimizer.schedulers.multiobjective.multiobjective_priority import LinearScalarizationPriority as _LSP

        comps["MultiObjectiveRegularizedEvolution(linear scalarisation)"] = (both, _searcher_component(lambda **sk: MultiObjectiveRegularizedEvolution(dict(rich), metric=["f1", "f2"], mode=["min", "min"], population_size=4, sample_size=3, multiobjective_priority=_LSP(), **sk), 14 if quick else 24))
    except ImportError:
        pass
    try:
        from syne_tune.optimizer.schedulers.searchers.kde import KernelDensityEstimator

        comps["KernelDensityEstimator"] = (both, _searcher_component(lambda **sk: KernelDensityEstimator(dict(small), metric="loss", debug_log=False, **sk), 12))
    except ImportError:
        pass  # statsmodels missing

    pbt_space = {"x": loguniform(1e-3, 1.0), "n": randint(1, 20), "w": finrange(0.1, 0.9, 5), "c": choice(["a", "b", "c"])}

    def pbt(random_seed):
        s = PopulationBasedTraining(dict(pbt_space), metric="loss", mode="min", resource_attr="epoch", max_t=12, population_size=8, perturbation_interval=1, quantile_fraction=0.4, resample_probability=0.3, random_seed=random_seed)
        s.set_time_keeper(_tk())
        return s

    comps["PopulationBasedTraining(population 8, quantile 0.4)"] = (("int",), _pbt_component(pbt, 8, 10 if quick else 24, 12))

    dehb_space = {"x": uniform(0.0, 1.0), "y": uniform(-1.0, 1.0), "n": randint(1, 20), "epochs": 9}

    def dehb(random_seed):
        return DifferentialEvolutionHyperbandScheduler(dict(dehb_space), rungs_first_bracket=[(9, 1), (3, 3), (1, 9)], searcher="random_encoded", metric="loss", mode="min", resource_attr="epoch", max_resource_attr="epochs", random_seed=random_seed)

    comps["DifferentialEvolutionHyperbandScheduler(one failed trial)"] = (("int",), _dehb_component(dehb, 40 if quick else 60, failing={2}))
    return comps


def _seed_kw(mode, sd):
    if mode == "int":
        return lambda: {"random_seed": sd}
    from syne_tune.optimizer.schedulers.random_seeds import RandomSeedGenerator

    return lambda: {"random_seed_generator": RandomSeedGenerator(sd)}


def monitor_seeded_searchers(tier="quick", seed=0, _child=False):
    t0 = time.time()
    with _quiet():
        comps = _c11_components(tier, seed)
        clauses = [CL11_HASH]
        for name, (modes, _) in comps.items():
            clauses.append(CL11_INT % name)
            if "gen" in modes:
                clauses.append(CL11_GEN % name)
            clauses.append(CL11_DIFF % name)
        book = _Book(clauses)
        samples, traces = [], {}
        base_seeds = [5 + 11 * seed + 977 * r for r in range(2 if tier == "quick" else 4)]
        for name, (modes, run) in comps.items():
            for mode, sd in [(m, b) for b in base_seeds for m in modes]:
                key = "%s/%s/%d" % (name, mode, sd)
                where = {"component": name, "seed_given_as": "random_seed=%d" % sd if mode == "int" else "random_seed_generator=RandomSeedGenerator(%d)" % sd}
                clause = (CL11_INT if mode == "int" else CL11_GEN) % name
                try:
                    a = run(_seed_kw(mode, sd), _Perturb(5000 + seed), None)
                except Exception as e:
                    if not _child:
                        book.check(clause, False, raised=repr(e)[:300], **where)
                    continue
                traces[key] = json.loads(json.dumps(a))
                if _child:
                    continue
                try:
                    b = run(_seed_kw(mode, sd), _Perturb(1000 + seed), _seed_kw(mode, sd + 1000))
                except Exception as e:
                    book.check(clause, False, raised=repr(e)[:300], **where)
                    continue
                j = _first_diff(a, b)
                book.check(clause, a == b, first_difference_at=j, run_A=_short(a[j:j + 1] if j is not None else ""), run_B_other_global_state_and_decoy_instance=_short(b[j:j + 1] if j is not None else ""), **where)
                if a != b:
                    # which ingredient matters?  (diagnostics only)
                    b2 = run(_seed_kw(mode, sd), _Perturb(1000 + seed), None)
                    book.violations[-1]["differs_without_decoy_instance_too"] = bool(a != b2) if book.violations and book.violations[-1].get("clause") == clause else None
                others = [run(_seed_kw(mode, sd + 1 + r), _Perturb(5000 + seed), None) for r in range(2 if (mode == modes[0] and sd == base_seeds[0]) else 1)]
                book.check(CL11_DIFF % name, any(o != a for o in others), note="different seeds give identical traces", trace=_short(a, 200), **where)
                if len(samples) < 4 and mode == "gen":
                    samples.append({"component": name, "seed": where["seed_given_as"], "trace_head": _short(a[:2], 200)})
        if _child:
            return {"traces": traces}
        # a second process with another hash seed repeats run A of every component
        env = dict(os.environ, PYTHONHASHSEED=str(4242 + seed), OMP_NUM_THREADS="1")
        code = "import sys, json; sys.modules.setdefault('yahpo_gym', None); from contracts import c16_native as m; r = m.monitor_seeded_searchers(%r, %d, _child=True); print('TWIN ' + json.dumps(r['traces']))" % (tier, seed)
        p = subprocess.run([sys.executable, "-c", code], env=env, stdout=subprocess.PIPE, stderr=subprocess.PIPE, text=True)
        other = None
        for line in p.stdout.splitlines():
            if line.startswith("TWIN "):
                other = json.loads(line[5:])
        if other is None:
            book.check(CL11_HASH, False, error="child process failed: " + p.stderr[-400:])
        else:
            for key, a in traces.items():
                b = other.get(key)
                j = None if b is None else _first_diff(a, b)
                book.check(CL11_HASH, a == b, component=key, first_difference_at=j, this_process=_short(a[j:j + 1] if j is not None else ""), other_hash_seed=_short(b[j:j + 1] if (b is not None and j is not None) else b))
    book.finish()
    return {
        "evaluations": book.evaluations,
        "distinct": len(comps),
        "clauses": clauses,
        "violations": book.violations,
        "samples": samples[:4],
        "summary": "%d seeded components (%s), each constructed and driven under two different states of numpy's and Python's global generators (re-seeded before construction and before every call, decoy instance with another seed interleaved), seed given as random_seed and as random_seed_generator, %d base seeds, other seeds for non-vacuity, second process with another PYTHONHASHSEED; %.0f s" % (len(comps), ", ".join(comps), len(base_seeds), time.time() - t0),
    }
