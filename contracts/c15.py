"""C15 -- minimising f and maximising -f are the same experiment."""
from pyvc.spec import *
from contracts.c17 import Print_best, Stats_add  # noqa: F401  (best-trial report and statistics, both modes)
from contracts.c19 import MoashaOnTrialResult  # noqa: F401  (per-metric modes are mapped to minimisation)

try:
    from syne_tune.optimizer.schedulers.hyperband_stopping import StoppingRungSystem
    from syne_tune.optimizer.schedulers.hyperband_promotion import PromotionRungSystem
    from syne_tune.optimizer.schedulers.hyperband_rush import RUSHDecider
    from syne_tune.optimizer.schedulers.synchronous.hyperband_bracket import get_top_list
except ImportError:
    pass

LEVEL = "exploration"
EXPLANATION = (
    "Relational (two-run) obligations by self-composition: the real classes are instantiated twice, once with mode "
    "'min' on values v and once with mode 'max' on -v, driven through the same event sequence, and every decision / "
    "ranking must agree unless a value sits exactly on a decision threshold (general position).  All values symbolic, "
    "sequence lengths bounded."
)
ASSUMPTIONS = [
    "A-REAL; general position: metric values pairwise distinct and none equal to a decision threshold",
    "bounded: <= 4 reports per rung, RUSH: <= 3 calls, top lists of <= 4 entries",
    "PASHA ranking, DEHB selection, regularised evolution and ExperimentResult (pandas) are not covered",
]


def distinct(vals):
    return forall(range(0, len(vals)), lambda i: forall(range(0, len(vals)), lambda j: vals[i] != vals[j] if i < j else True))


def rel_stopping(vals, q):
    """stopping-type rung system: the same stop / continue decisions in both modes"""
    assume(0 < q and q < 1 and distinct(vals))
    a = StoppingRungSystem(rung_levels=[1], promote_quantiles=[q], metric="loss", mode="min", resource_attr="epoch", max_t=3)
    b = StoppingRungSystem(rung_levels=[1], promote_quantiles=[q], metric="loss", mode="max", resource_attr="epoch", max_t=3)
    for i in range(len(vals)):
        ra = a.on_task_report(str(i), {"epoch": 1, "loss": vals[i]}, 0)
        rb = b.on_task_report(str(i), {"epoch": 1, "loss": -vals[i]}, 0)
        cut = a._rungs[0].quantile()
        on_threshold = cut is not None and cut == vals[i]
        check("same-stop-decision[%d]" % i, on_threshold or ra["task_continues"] == rb["task_continues"])
        check("same-milestone-flags[%d]" % i, ra["milestone_reached"] == rb["milestone_reached"] and ra["next_milestone"] == rb["next_milestone"])
    return True


def rel_promotion(vals, q):
    """promotion-type rung system: the same trial is promoted (or none) in both modes"""
    assume(0 < q and q < 1 and distinct(vals))
    a = PromotionRungSystem(rung_levels=[1], promote_quantiles=[q], metric="loss", mode="min", resource_attr="epoch", max_t=3)
    b = PromotionRungSystem(rung_levels=[1], promote_quantiles=[q], metric="loss", mode="max", resource_attr="epoch", max_t=3)
    for i in range(len(vals)):
        a.on_task_add(str(i), 0)
        b.on_task_add(str(i), 0)
        a.on_task_report(str(i), {"epoch": 1, "loss": vals[i]}, 0)
        b.on_task_report(str(i), {"epoch": 1, "loss": -vals[i]}, 0)
        cut = a._rungs[0].quantile()
        tie = cut is not None and exists(range(0, i + 1), lambda j: vals[j] == cut)
        pa = a.on_task_schedule("new")
        pb = b.on_task_schedule("new")
        check("same-promotion[%d]" % i, tie or pa.get("trial_id") == pb.get("trial_id"))
    return True


def rel_rush(vals, cand):
    """RUSH threshold rule: candidates record thresholds, other trials must meet them -- same answers in both modes"""
    assume(distinct(vals))
    a = RUSHDecider(2, "min")
    b = RUSHDecider(2, "max")
    ids = ["0", "5", "1", "7"]
    for i in range(len(vals)):
        tid = ids[(i + cand) % 4]
        da = a.task_continues(True, tid, vals[i], 1)
        db = b.task_continues(True, tid, -vals[i], 1)
        check("same-rush-decision[%d]" % i, da == db)
    return True


def rel_top_list(vals, new_len):
    """synchronous Hyperband: the same trials are promoted in both modes"""
    assume(distinct(vals) and 1 <= new_len and new_len <= len(vals))
    ta, ra = get_top_list([(i, vals[i]) for i in range(len(vals))], new_len, "min")
    tb, rb = get_top_list([(i, -vals[i]) for i in range(len(vals))], new_len, "max")
    check("same-top-list", seq_eq(ta, tb))
    check("same-remaining", seq_eq(ra, rb))
    return True


def _rel_contract(fn_name, label, params, shapes, has_lists=True):
    def deco(cls):
        return cls

    return deco


@contract("contracts.c15:rel_stopping", props=("C15",))
class RelStopping:
    label = "StoppingRungSystem[min vs max]"
    params = dict(vals=List(Real), q=Real)
    unbounded = False
    shapes = [{"vals": k} for k in (1, 2, 3)]
    shapes_thorough = [{"vals": k} for k in (1, 2, 3, 4)]

    def requires(s):
        return True

    def ensures(old, s, result):
        return {"completed": result == True}  # noqa: E712


@contract("contracts.c15:rel_promotion", props=("C15",))
class RelPromotion:
    label = "PromotionRungSystem[min vs max]"
    params = dict(vals=List(Real), q=Real)
    unbounded = False
    shapes = [{"vals": k} for k in (1, 2, 3)]

    def requires(s):
        return True

    def ensures(old, s, result):
        return {"completed": result == True}  # noqa: E712


@contract("contracts.c15:rel_rush", props=("C15",))
class RelRush:
    label = "RUSHDecider[min vs max]"
    params = dict(vals=List(Real), cand=Int)
    unbounded = False
    shapes = [{"vals": k, "cand": c} for k in (1, 2, 3) for c in (0, 1)]

    def requires(s):
        return True

    def ensures(old, s, result):
        return {"completed": result == True}  # noqa: E712


@contract("contracts.c15:rel_top_list", props=("C15",))
class RelTopList:
    label = "get_top_list[min vs max]"
    params = dict(vals=List(Real), new_len=Int)
    unbounded = False
    shapes = [{"vals": k} for k in (1, 2, 3, 4)]

    def requires(s):
        return True

    def ensures(old, s, result):
        return {"completed": result == True}  # noqa: E712


from pyvc.native import native_monitor  # noqa: E402

EXTRA_CHECKS = [native_monitor("C15", "contracts.c04_native", "monitor_hyperband", "hyperband", "631 (thorough 3598) scenarios: the real HyperbandScheduler (promotion, pasha, rush, cost-aware, stopping; 1..3 brackets; all data policies; random and GP searcher) under a Tuner-like event loop with failures and self-completion, compared with an independent ledger (numpy quantiles, three-valued eligibility with tie latitude, total cost, PASHA min/max twin)")]
EXTRA_CHECKS = list(EXTRA_CHECKS) + [native_monitor("C15", "contracts.c05_native", "monitor_sync", "sync-hyperband", "about 23000 (thorough 217000) scenarios: get_top_list on every rank permutation x failure subset of <= 5 (6) slots, single brackets, synchronous and DEHB bracket managers and schedulers under every return order / failure sequence of 3..5 (5..7) steps and random schedules (1..9 workers, <= 70 (160) steps), against an independent reference with tie latitude; min/max twin runs incl. PASHA soft ranking and asynchronous Hyperband types")]
EXTRA_CHECKS = list(EXTRA_CHECKS) + [native_monitor("C15", "contracts.c19_native", "monitor_moasha", "moasha", "704 point sets + 1086 MOASHA scenarios (thorough 6535 in total): pareto filter / non-dominated sort / priorities on every small grid set and random sets (n <= 9 (12), dimension 1..5, ties, duplicates) x preferred dimension x max_items; the real MOASHA (max_t <= 27, rf in {1.5,2,2.5,3,4}, brackets 1..3, every min/max list, all priorities) under every arrival order of 3-4 (5) chain points and random interleavings with level-skipping / late-first reporters and on_trial_complete, exact rational rank fractions, min/max twin with permuted metric order")]
