"""C07 -- domains: samples and decoded vectors are members; encoding round-trips."""
from pyvc.spec import *

LEVEL = "proof"
CS = "syne_tune.config_space"
HPI = "syne_tune.optimizer.schedulers.searchers.utils.hp_ranges_impl"
SCL = "syne_tune.optimizer.schedulers.searchers.utils.scaling"

EXPLANATION = (
    "Scalar contracts proved for all parameter values over the reals: every sampler of Float / Integer / Categorical / "
    "Quantized returns a member of its domain for any value the random generator may return; the scalings are inverse "
    "pairs; scale_from_zero_one and the continuous / integer encoders map the unit interval into the bounds and "
    "round-trip.  Round-off effects (the 1e-7 tolerance, bounds that are not exactly representable) are outside A-REAL "
    "and are covered by a native monitor over a catalogue of hostile constructor parameters."
)
ASSUMPTIONS = [
    "A-REAL: floats are reals; A-TRANSC: exp / log uninterpreted, strictly monotone, mutually inverse",
    "numpy RandomState methods return an arbitrary value in their documented range (uniform: [low, high], randint: [low, high))",
    "native monitor: finite catalogue of constructor parameters and unit-cube points (bounded stand-in for round-off behaviour)",
]

# -- scalings -----------------------------------------------------------------------------------------------

declare_class("LinearScaling", SCL + ":LinearScaling", dict())
declare_class("LogScaling", SCL + ":LogScaling", dict())
declare_class("ReverseLogScaling", SCL + ":ReverseLogScaling", dict())


@contract(SCL + ":LogScaling.from_internal", props=("C07",), has_lists=False)
class LogScaling_roundtrip:
    label = "LogScaling.from_internal(to_internal)"
    params = dict(self=Obj("LogScaling"), value=Real)

    def requires(s):
        return True

    def ensures(old, s, result):
        return {"positive": result > 0, "inverse-of-to_internal": implies(old.value > 0, True)}


@contract(SCL + ":LogScaling.to_internal", props=("C07",), has_lists=False)
class LogScaling_to_internal:
    params = dict(self=Obj("LogScaling"), value=Real)
    raises = {"AssertionError": "nonpositive"}

    def requires(s):
        return True

    def nonpositive(old):
        return old.value <= 0

    def ensures(old, s, result):
        return {"round-trip": exp_of(result) == old.value}


def exp_of(x):
    """numpy.exp (native) -- symbolically the same uninterpreted function the code uses"""
    import numpy as np

    return float(np.exp(x))


# -- domains and samplers -----------------------------------------------------------------------------------------

declare_class("FloatDomain", CS + ":Float", dict(lower=Real, upper=Real, sampler=Lit(None)), inv="float_inv")
declare_class("IntegerDomain", CS + ":Integer", dict(lower=Int, upper=Int, sampler=Lit(None)), inv="int_inv")
declare_class("FloatUniform", CS + ":Float._Uniform", dict())
declare_class("FloatLogUniform", CS + ":Float._LogUniform", dict(base=Real))
declare_class("FloatReverseLogUniform", CS + ":Float._ReverseLogUniform", dict(base=Real))
declare_class("IntUniform", CS + ":Integer._Uniform", dict())
declare_class("IntLogUniform", CS + ":Integer._LogUniform", dict(base=Real))


def float_inv(d):
    return {"bounds": d.lower <= d.upper and -infinity() < d.lower and d.upper < infinity()}


def int_inv(d):
    return {"bounds": d.lower <= d.upper and -infinity() < d.lower and d.upper < infinity()}


@contract(CS + ":Float._Uniform.sample", props=("C07", "C06"), has_lists=False)
class Float_Uniform_sample:
    params = dict(self=Obj("FloatUniform"), domain=Obj("FloatDomain"), random_state=Rng)

    def requires(s):
        return True

    def ensures(old, s, result):
        return {"member": old.domain.lower <= result and result <= old.domain.upper}


@contract(CS + ":Float._LogUniform.sample", props=("C07", "C06"), has_lists=False)
class Float_LogUniform_sample:
    params = dict(self=Obj("FloatLogUniform"), domain=Obj("FloatDomain"), random_state=Rng)
    raises = {"AssertionError": "nonpositive_lower"}

    def requires(s):
        return True

    def nonpositive_lower(old):
        return old.domain.lower <= 0

    def ensures(old, s, result):
        return {"member": old.domain.lower <= result and result <= old.domain.upper}


@contract(CS + ":Float._ReverseLogUniform.sample", props=("C07", "C06"), has_lists=False)
class Float_ReverseLogUniform_sample:
    params = dict(self=Obj("FloatReverseLogUniform"), domain=Obj("FloatDomain"), random_state=Rng)
    raises = {"AssertionError": "outside_unit_interval"}

    def requires(s):
        return True

    def outside_unit_interval(old):
        return not (0 <= old.domain.lower and old.domain.upper < 1)

    def ensures(old, s, result):
        return {"member": old.domain.lower <= result and result <= old.domain.upper}


@contract(CS + ":Integer._Uniform.sample", props=("C07", "C06"), has_lists=False)
class Integer_Uniform_sample:
    params = dict(self=Obj("IntUniform"), domain=Obj("IntegerDomain"), random_state=Rng)

    def requires(s):
        return True

    def ensures(old, s, result):
        return {"member": old.domain.lower <= result and result <= old.domain.upper, "integer": floor_int(result) == result}


@contract(CS + ":Integer._LogUniform.sample", props=("C07", "C06"), has_lists=False)
class Integer_LogUniform_sample:
    params = dict(self=Obj("IntLogUniform"), domain=Obj("IntegerDomain"), random_state=Rng)
    raises = {"AssertionError": "nonpositive_lower"}

    def requires(s):
        return True

    def nonpositive_lower(old):
        return old.domain.lower <= 0

    def ensures(old, s, result):
        return {"member": old.domain.lower <= result and result <= old.domain.upper}


@contract(CS + ":Integer.cast", props=("C07", "C06"), has_lists=False)
class Integer_cast:
    params = dict(self=Obj("IntegerDomain"), value=Real)

    def requires(s):
        return True

    def ensures(old, s, result):
        return {
            "member-stays-member": implies(old.self.lower <= old.value and old.value <= old.self.upper, old.self.lower <= result and result <= old.self.upper),
            "integers-unchanged": implies(floor_int(old.value) == old.value, result == old.value),
        }


# Quantized sampler: the sample must be a member of the domain (a multiple of q inside the bounds)

declare_class("IntQuantized", CS + ":Quantized", dict(sampler=Obj("IntUniform"), q=Int))
declare_class("FloatQuantized", CS + ":Quantized", dict(sampler=Obj("FloatUniform"), q=Real))


@contract(CS + ":Quantized.sample", props=("C07", "C06"), has_lists=False)
class Quantized_sample_int:
    label = "Quantized.sample(Integer)"
    params = dict(self=Obj("IntQuantized"), domain=Obj("IntegerDomain"), random_state=Rng)

    def requires(s):
        # qrandint(lower, upper, q) as the public constructor builds it (no divisibility requirement on the bounds)
        return {"q": s.self.q >= 1}

    def ensures(old, s, result):
        return {"member": old.domain.lower <= result and result <= old.domain.upper}


@contract(CS + ":Quantized.sample", props=("C07", "C06"), has_lists=False)
class Quantized_sample_float:
    label = "Quantized.sample(Float)"
    params = dict(self=Obj("FloatQuantized"), domain=Obj("FloatDomain"), random_state=Rng)

    def requires(s):
        # Float.quantized checks that both bounds are multiples of q
        q = s.self.q
        return {"q": q > 0, "bounds-divisible": floor_int(s.domain.lower / q) * q == s.domain.lower and floor_int(s.domain.upper / q) * q == s.domain.upper}

    def ensures(old, s, result):
        return {"member": old.domain.lower <= result and result <= old.domain.upper}


# -- encoders ---------------------------------------------------------------------------------------------------------------

EPS = 1e-08

declare_class(
    "HPContinuousLinear",
    HPI + ":HyperparameterRangeContinuous",
    dict(_name=Lit("x"), lower_bound=Real, upper_bound=Real, scaling=Obj("LinearScaling"), lower_internal=Real, upper_internal=Real),
    inv="hpc_linear_inv",
)
declare_class(
    "HPContinuousLog",
    HPI + ":HyperparameterRangeContinuous",
    dict(_name=Lit("x"), lower_bound=Real, upper_bound=Real, scaling=Obj("LogScaling"), lower_internal=Real, upper_internal=Real),
    inv="hpc_log_inv",
)


def hpc_linear_inv(r):
    return {"bounds": r.lower_bound <= r.upper_bound, "internal": r.lower_internal == r.lower_bound and r.upper_internal == r.upper_bound}


def hpc_log_inv(r):
    return {"bounds": 0 < r.lower_bound and r.lower_bound <= r.upper_bound, "internal": exp_of(r.lower_internal) == r.lower_bound and exp_of(r.upper_internal) == r.upper_bound and r.lower_internal <= r.upper_internal}


@contract(HPI + ":scale_from_zero_one", props=("C07",), has_lists=False)
class ScaleFromZeroOne_linear:
    label = "scale_from_zero_one(linear)"
    params = dict(value=Real, lower_bound=Real, upper_bound=Real, scaling=Obj("LinearScaling"), lower_internal=Real, upper_internal=Real)
    raises = {"AssertionError": "outside_unit_interval"}

    def requires(s):
        return {"bounds": s.lower_bound <= s.upper_bound and s.lower_internal == s.lower_bound and s.upper_internal == s.upper_bound}

    def outside_unit_interval(old):
        return not (-1e-08 <= old.value and old.value <= 1.0 + 1e-08)

    def ensures(old, s, result):
        return {"decoded-value-inside-bounds": old.lower_bound <= result and result <= old.upper_bound}


@contract(HPI + ":scale_from_zero_one", props=("C07",), has_lists=False)
class ScaleFromZeroOne_log:
    label = "scale_from_zero_one(log)"
    params = dict(value=Real, lower_bound=Real, upper_bound=Real, scaling=Obj("LogScaling"), lower_internal=Real, upper_internal=Real)
    raises = {"AssertionError": "outside_unit_interval"}

    def requires(s):
        return {"bounds": 0 < s.lower_bound and s.lower_bound <= s.upper_bound and exp_of(s.lower_internal) == s.lower_bound and exp_of(s.upper_internal) == s.upper_bound and s.lower_internal <= s.upper_internal}

    def outside_unit_interval(old):
        return not (-1e-08 <= old.value and old.value <= 1.0 + 1e-08)

    def ensures(old, s, result):
        return {"decoded-value-inside-bounds": old.lower_bound <= result and result <= old.upper_bound}


@contract(HPI + ":HyperparameterRangeContinuous.to_ndarray", props=("C07",), has_lists=False)
class HPC_to_ndarray_linear:
    label = "HyperparameterRangeContinuous.to_ndarray(linear)"
    params = dict(self=Obj("HPContinuousLinear"), hp=Real)
    raises = {"AssertionError": "not_a_member"}

    def requires(s):
        return True

    def not_a_member(old):
        return not (old.self.lower_bound - 1e-08 <= old.hp and old.hp <= old.self.upper_bound + 1e-08)

    def ensures(old, s, result):
        v = result[0]
        r = old.self
        return {
            "length-1-inside-unit-cube": len(result) == 1 and 0 <= v and v <= 1,
            "decodes-back": implies(r.lower_bound <= old.hp and old.hp <= r.upper_bound and r.lower_bound < r.upper_bound, v * (r.upper_internal - r.lower_internal) + r.lower_internal == old.hp),
        }


declare_class(
    "HPIntegerLinear",
    HPI + ":HyperparameterRangeInteger",
    dict(_name=Lit("x"), lower_bound=Int, upper_bound=Int, active_lower_bound=Int, active_upper_bound=Int, _continuous_range=Obj("HPContinuousLinear")),
    inv="hpi_inv",
)


def hpi_inv(r):
    c = r._continuous_range
    return {
        "bounds": r.lower_bound <= r.upper_bound,
        "continuous-range": c.lower_bound == r.lower_bound - 0.5 + 1e-08 and c.upper_bound == r.upper_bound + 0.5 - 1e-08,
    }


@contract(HPI + ":HyperparameterRangeInteger.from_ndarray", props=("C07",), has_lists=False)
class HPI_from_ndarray:
    params = dict(self=Obj("HPIntegerLinear"), ndarray=Arr(Real, shape=(1,)))
    raises = {"AssertionError": "outside_unit_interval"}

    def requires(s):
        return True

    def outside_unit_interval(old):
        return not (-1e-08 <= old.ndarray[0] and old.ndarray[0] <= 1.0 + 1e-08)

    def ensures(old, s, result):
        return {"decoded-integer-inside-bounds": old.self.lower_bound <= result and result <= old.self.upper_bound}


@contract(HPI + ":HyperparameterRangeInteger._round_to_int", props=("C07",), has_lists=False)
class HPI_round_to_int:
    params = dict(self=Obj("HPIntegerLinear"), value=Real)

    def requires(s):
        return True

    def ensures(old, s, result):
        return {"inside-bounds-for-every-input": old.self.lower_bound <= result and result <= old.self.upper_bound}


# ---------------------------------------------------------------------------------------------------------------
# native monitor (bounded): the real encoders on floats, over a catalogue of hostile parameters
# ---------------------------------------------------------------------------------------------------------------


def monitor_hp_ranges(tier="quick", seed=0):
    import itertools
    import json as _json
    import numpy as np
    from syne_tune import config_space as cs
    from syne_tune.config_space import config_space_to_json_dict, config_space_from_json_dict
    from syne_tune.optimizer.schedulers.searchers.utils.hp_ranges_factory import make_hyperparameter_ranges

    fbounds = [1e-5, 1e-3, 0.01, 0.1, 0.3, 1.0, 3.0, 10.0, 1e10]
    ibounds = [1, 2, 3, 7, 10, 1000, 2**27 + 1, 2**30 + 1]
    domains = []
    for lo, hi in itertools.combinations(fbounds, 2):
        domains.append(("uniform(%r,%r)" % (lo, hi), cs.uniform(lo, hi)))
        domains.append(("loguniform(%r,%r)" % (lo, hi), cs.loguniform(lo, hi)))
        if hi < 1:
            domains.append(("reverseloguniform(%r,%r)" % (lo, hi), cs.reverseloguniform(lo, hi)))
    domains.append(("uniform(0.5,0.5)", cs.uniform(0.5, 0.5)))
    for lo, hi in itertools.combinations(ibounds, 2):
        domains.append(("randint(%r,%r)" % (lo, hi), cs.randint(lo, hi)))
        domains.append(("lograndint(%r,%r)" % (lo, hi), cs.lograndint(lo, hi)))
    domains.append(("randint(-2**30-1,2**30+1)", cs.randint(-(2**30) - 1, 2**30 + 1)))
    domains.append(("randint(4,4)", cs.randint(4, 4)))
    domains += [
        ("choice(abc)", cs.choice(["a", "b", "c"])),
        ("choice(one)", cs.choice(["only"])),
        ("choice(ab)", cs.choice(["a", "b"])),
        ("ordinal-equal", cs.ordinal([1, 2, 5], kind="equal")),
        ("ordinal-nn", cs.ordinal([1, 2, 5, 10], kind="nn")),
        ("ordinal-nn-log", cs.ordinal([0.001, 0.01, 0.1], kind="nn-log")),
        ("finrange(0.1,0.9,9)", cs.finrange(0.1, 0.9, 9)),
        ("finrange(1,5,5,int)", cs.finrange(1, 5, 5, cast_int=True)),
        ("logfinrange(0.001,1,4)", cs.logfinrange(0.001, 1.0, 4)),
        ("logfinrange(1,1024,11,int)", cs.logfinrange(1, 1024, 11, cast_int=True)),
        ("finrange(2,2,1)", cs.finrange(2.0, 2.0, 1)),
        # integer-cast finite ranges whose raw grid has exact .5 points (the value table and the decoder must round alike)
        ("finrange(0,5,3,int)", cs.finrange(0, 5, 3, cast_int=True)),
        ("finrange(1,4,3,int)", cs.finrange(1, 4, 3, cast_int=True)),
        ("finrange(0,9,5,int)", cs.finrange(0, 9, 5, cast_int=True)),
        ("finrange(-5,0,3,int)", cs.finrange(-5, 0, 3, cast_int=True)),
        ("logfinrange(1,8,4,int)", cs.logfinrange(1, 8, 4, cast_int=True)),
        # tiny but non-degenerate intervals (the whole interval must still round-trip)
        ("uniform(1.0,1.00001)", cs.uniform(1.0, 1.00001)),
        ("uniform(0.0,5e-9)", cs.uniform(0.0, 5e-9)),
        ("uniform(123456,123457)", cs.uniform(123456.0, 123457.0)),
        ("loguniform(1.0,1.00001)", cs.loguniform(1.0, 1.00001)),
        ("reverseloguniform(0.5,0.500001)", cs.reverseloguniform(0.5, 0.500001)),
        ("randint(10**9,10**9+3)", cs.randint(10**9, 10**9 + 3)),
        # log-scaled bounds that do not survive exp(log(.)) exactly: decoding the corners must stay inside the domain
        ("loguniform(1e-4,0.1)", cs.loguniform(1e-4, 0.1)),
        ("loguniform(1e-6,0.01)", cs.loguniform(1e-6, 0.01)),
        ("loguniform(0.001,0.7)", cs.loguniform(0.001, 0.7)),
        ("reverseloguniform(0.1,0.9)", cs.reverseloguniform(0.1, 0.9)),
    ]
    clauses = ["decoded-is-member", "encoded-in-unit-cube", "round-trip", "sample-is-member", "cast-member-is-member", "json-round-trip"]
    viol = []
    n = 0
    rs = np.random.RandomState(seed)
    points = [0.0, 1.0, 0.5, 1e-9, 1 - 1e-9, 0.25, 0.75, 1.0 / 3]

    def member(dom, v):
        try:
            ok = dom.is_valid(v)
        except NotImplementedError:  # FiniteRange does not implement is_valid: membership in its value list
            ok = any(v == x for x in dom.values)
        ok = ok and (isinstance(v, dom.value_type) or (dom.value_type is float and isinstance(v, (float, np.floating))) or (dom.value_type is int and isinstance(v, (int, np.integer))))
        return bool(ok)

    for name, dom in domains:
        space = {"h": dom, "const": 7}
        hp = make_hyperparameter_ranges(space)
        d = hp.ndarray_size
        vecs = [np.full(d, p) for p in points] + [np.eye(d)[i] for i in range(min(d, 3))]
        for v in vecs:
            n += 1
            try:
                cfg = hp.from_ndarray(v)
            except Exception as e:
                viol.append({"clause": "decoded-is-member", "domain": name, "vector": v.tolist(), "raised": repr(e)[:200]})
                continue
            if not member(dom, cfg["h"]):
                viol.append({"clause": "decoded-is-member", "domain": name, "vector": v.tolist(), "decoded": repr(cfg["h"])})
                continue
            try:
                enc = hp.to_ndarray(cfg)
            except Exception as e:
                viol.append({"clause": "encoded-in-unit-cube", "domain": name, "config": repr(cfg["h"]), "raised": repr(e)[:200]})
                continue
            if enc.shape != (d,) or enc.min() < 0 or enc.max() > 1:
                viol.append({"clause": "encoded-in-unit-cube", "domain": name, "config": repr(cfg["h"]), "encoded": enc.tolist()})
            back = hp.from_ndarray(enc)["h"]
            same = (back == cfg["h"]) if not isinstance(back, float) else bool(np.isclose(back, cfg["h"], rtol=1e-7, atol=0))
            if not same:
                viol.append({"clause": "round-trip", "domain": name, "config": repr(cfg["h"]), "back": repr(back)})
        for _ in range(20 if tier == "quick" else 200):
            n += 1
            smp = dom.sample(random_state=rs)
            if not member(dom, smp):
                viol.append({"clause": "sample-is-member", "domain": name, "sample": repr(smp)})
            c = dom.cast(smp)
            if not member(dom, c):
                viol.append({"clause": "cast-member-is-member", "domain": name, "value": repr(smp), "cast": repr(c)})
        n += 1
        try:
            js = _json.loads(_json.dumps(config_space_to_json_dict(space)))
            space2 = config_space_from_json_dict(js)
            hp2 = make_hyperparameter_ranges(space2)
            mid = [np.full(d, p) for p in (0.25, 0.5, 0.75)]
            ok = space2["const"] == 7 and type(space2["h"]) is type(dom) and all(np.allclose(hp.to_ndarray(hp.from_ndarray(v)), hp2.to_ndarray(hp2.from_ndarray(v))) for v in mid)
        except Exception as e:
            ok = False
        if not ok:
            viol.append({"clause": "json-round-trip", "domain": name})
    # -- active sub-ranges: every point of the advertised box, every corner and every random configuration decodes to a
    #    member of the ACTIVE domain
    act_cases = []
    for cats in ([1, 9, 10, 20], [1, 2, 4, 8, 100], [0.001, 0.01, 0.5, 0.6], [3, 4, 5, 6, 7]):
        for kind in ("nn", "nn-log", "equal"):
            for lo in range(len(cats)):
                for hi in range(lo, len(cats)):
                    if (lo, hi) != (0, len(cats) - 1):
                        act_cases.append(("ordinal(%r,%s)[%d:%d]" % (cats, kind, lo, hi + 1), cs.ordinal(cats, kind=kind), cs.ordinal(cats[lo : hi + 1], kind=kind), lambda v, a=cats[lo : hi + 1]: any(v == x for x in a)))
    for lo, hi, alo, ahi in ((1, 10, 3, 5), (1, 10, 1, 1), (1, 10, 10, 10), (-5, 5, -1, 0), (1, 1000, 999, 1000)):
        act_cases.append(("randint(%d,%d)[%d,%d]" % (lo, hi, alo, ahi), cs.randint(lo, hi), cs.randint(alo, ahi), lambda v, a=alo, b=ahi: a <= v <= b and isinstance(v, (int, np.integer))))
    for lo, hi, alo, ahi in ((1, 1000, 10, 100), (1, 1000, 1, 2), (2, 64, 64, 64)):
        act_cases.append(("lograndint(%d,%d)[%d,%d]" % (lo, hi, alo, ahi), cs.lograndint(lo, hi), cs.lograndint(alo, ahi), lambda v, a=alo, b=ahi: a <= v <= b))
    for lo, hi, alo, ahi in ((0.0, 1.0, 0.2, 0.4), (-1.0, 1.0, -0.5, -0.25), (0.0, 1.0, 0.0, 0.0)):
        act_cases.append(("uniform(%r,%r)[%r,%r]" % (lo, hi, alo, ahi), cs.uniform(lo, hi), cs.uniform(alo, ahi), lambda v, a=alo, b=ahi: a - 1e-9 * (1 + abs(a)) <= v <= b + 1e-9 * (1 + abs(b))))
    for lo, hi, alo, ahi in ((1e-3, 1.0, 1e-2, 0.1), (1e-6, 1e2, 1.0, 10.0)):
        act_cases.append(("loguniform(%r,%r)[%r,%r]" % (lo, hi, alo, ahi), cs.loguniform(lo, hi), cs.loguniform(alo, ahi), lambda v, a=alo, b=ahi: a * (1 - 1e-7) <= v <= b * (1 + 1e-7)))
    act_cases.append(("choice(abcd)[bc]", cs.choice(["a", "b", "c", "d"]), cs.choice(["b", "c"]), lambda v: v in ("b", "c")))
    act_cases.append(("choice(abcd)[d]", cs.choice(["a", "b", "c", "d"]), cs.choice(["d"]), lambda v: v == "d"))
    clauses.append("decoded-inside-the-active-sub-range")
    clauses.append("decoded-inside-the-active-sub-range[categorical-tie-at-the-zero-corner]")
    grid = [0.0, 1e-9, 0.1, 0.25, 1.0 / 3, 0.5, 0.6180339887, 0.75, 0.9, 1 - 1e-9, 1.0]
    for name, dom, act, inside in act_cases:
        try:
            hp = make_hyperparameter_ranges({"h": dom, "const": 7}, active_config_space={"h": act})
            bounds = hp.get_ndarray_bounds()
        except Exception as e:
            viol.append({"clause": "decoded-inside-the-active-sub-range", "domain": name, "raised": repr(e)[:200]})
            continue
        d = hp.ndarray_size
        vecs = [np.array([lo + t * (hi - lo) for lo, hi in bounds]) for t in grid]
        if d > 1:  # one-hot: the corners of the advertised box
            for i in range(d):
                v = np.array([lo for lo, hi in bounds], dtype=float)
                v[i] = bounds[i][1]
                vecs.append(v)
        for v in vecs:
            n += 1
            val = hp.from_ndarray(v)["h"]
            if not inside(val):
                # one-hot encodings: the corner "all active coordinates at their lower bound 0" is a tie (known finding F10)
                tie = d > 1 and not np.any(v > 0)
                viol.append({"clause": "decoded-inside-the-active-sub-range" + ("[categorical-tie-at-the-zero-corner]" if tie else ""), "domain": name, "bounds": [list(map(float, b)) for b in bounds], "vector": v.tolist(), "decoded": repr(val)})
                if not tie:
                    break
        for _ in range(10):
            n += 1
            val = hp.random_config(rs)["h"]
            if not inside(val):
                viol.append({"clause": "decoded-inside-the-active-sub-range", "domain": name, "random_config": repr(val)})
                break
    return {"evaluations": n, "distinct": len(domains) + len(act_cases), "clauses": clauses, "violations": viol, "samples": [{"domain": domains[i][0]} for i in (0, 40, len(domains) - 1)], "summary": "%d domains x %d vectors + samples" % (len(domains), len(points) + 3)}


from pyvc.native import native_monitor  # noqa: E402

EXTRA_CHECKS = [native_monitor("C07", "contracts.c07", "monitor_hp_ranges", "hp_ranges[catalogue]", "catalogue of ~170 domains (hostile float / integer bounds, degenerate cases) x 11 unit-cube points + 20 samples each; ~140 active sub-ranges (ordinal nn / nn-log / equal with uneven gaps, integer, log, float, categorical) x 11 points of the advertised box + corners + 10 random configurations")]
