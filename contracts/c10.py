"""C10 -- simulated experiments replay the benchmark table faithfully in values and time."""
from pyvc.spec import *

try:  # native side only; symbolically these names are resolved from /repo's source
    from collections import defaultdict
    from syne_tune.backend.simulator_backend.simulator_backend import SimulatorBackend, SimulatorConfig
    from syne_tune.backend.simulator_backend.events import SimulatorState
    from syne_tune.backend.simulator_backend.time_keeper import SimulatedTimeKeeper
except ImportError:
    from pyvc.spec import NativeOnly as SimulatorBackend  # placeholder base class outside /venv

LEVEL = "exploration"
SIM_TK = "syne_tune.backend.simulator_backend.time_keeper"

EXPLANATION = (
    "SimulatedTimeKeeper (time never runs backwards, waiting charged once) is proved for all values. "
    "The event queue / delivery logic of the real SimulatorBackend is driven by a harness with symbolic delays, "
    "elapsed times, sleep times and outside (real) time through start, poll, stop/pause and resume of two trials "
    "(bounded in the number of events; heapq is a verbatim port of CPython's binary heap)."
)
ASSUMPTIONS = [
    "A-REAL",
    "time.time() is monotone non-decreasing (real time spent outside the back end is an arbitrary non-negative amount)",
    "heapq modelled by a port of CPython's pure-python heapq; datetime values opaque",
    "scenario bounded: 2 trials, <= 2 results per run, <= 3 polls, one stop/pause/resume",
    "the harness back end replaces only _run_job_and_collect_results (scripted table rows) and the file-system set-up of __init__",
]


# ---------------------------------------------------------------------------------------------
# SimulatedTimeKeeper: unbounded contracts
# ---------------------------------------------------------------------------------------------

declare_class("TimeKeeper", SIM_TK + ":SimulatedTimeKeeper", dict(_current_time=Opt(Real), _start_time_stamp=Opt(Int), _last_recent_exit=Opt(Real)))


@contract(SIM_TK + ":SimulatedTimeKeeper.advance", props=("C10",), has_lists=False)
class TK_advance:
    params = dict(self=Obj("TimeKeeper"), step=Real)
    raises = {"AssertionError": "not_started_or_negative"}

    def requires(s):
        return True

    def not_started_or_negative(old):
        return old.self._current_time is None or old.step < 0

    def ensures(old, s, result):
        return {
            "charged-exactly-once": s.self._current_time == old.self._current_time + old.step,
            "never-backwards": s.self._current_time >= old.self._current_time,
        }


@contract(SIM_TK + ":SimulatedTimeKeeper.advance_to", props=("C10",), has_lists=False)
class TK_advance_to:
    params = dict(self=Obj("TimeKeeper"), to_time=Real)
    raises = {"AssertionError": "not_started"}

    def requires(s):
        return True

    def not_started(old):
        return old.self._current_time is None

    def ensures(old, s, result):
        return {
            "never-backwards": s.self._current_time >= old.self._current_time,
            "reaches-target": s.self._current_time >= old.to_time,
            "no-overshoot": s.self._current_time == old.to_time or s.self._current_time == old.self._current_time,
        }


@contract(SIM_TK + ":SimulatedTimeKeeper.time", props=("C10",), has_lists=False)
class TK_time:
    params = dict(self=Obj("TimeKeeper"))
    raises = {"AssertionError": "not_started"}

    def requires(s):
        return True

    def not_started(old):
        return old.self._current_time is None

    def ensures(old, s, result):
        return {"value": result == old.self._current_time, "frame": unchanged(s.self, old.self)}


# ---------------------------------------------------------------------------------------------
# harness: the real SimulatorBackend with scripted table rows
# ---------------------------------------------------------------------------------------------


class HarnessBackend(SimulatorBackend):
    """SimulatorBackend without file-system set-up; runs return scripted (table) rows"""

    def __init__(self, script, cfg):
        self.delete_checkpoints = False
        self.trial_ids = []
        self._trial_dict = dict()
        self._last_metric_seen_index = defaultdict(lambda: 0)
        self.elapsed_time_attr = "elapsed"
        self.simulator_config = cfg
        self.tuner_sleep_time = 0
        self._debug_resource_attr = None
        self._simulator_state = SimulatorState()
        self._time_keeper = SimulatedTimeKeeper()
        self._next_results_to_fetch = dict()
        self._busy_trial_ids = set()
        self._script = script
        self._runs = dict()

    def _run_job_and_collect_results(self, trial_id, config=None):
        k = self._runs.get(trial_id, 0)
        self._runs[trial_id] = k + 1
        return "Completed", self._script[trial_id][k]

    def copy_checkpoint(self, src_trial_id, tgt_trial_id):
        pass

    def delete_checkpoint(self, trial_id):
        pass


def expected_time(start, cfg, row):
    return start + cfg.delay_start + row["elapsed"] + cfg.delay_on_trial_result


def scenario_sim(delays, elapsed, sleeps, stop_kind):
    """start two trials; poll three times; after the first poll trial 0 is stopped (stop_kind 0), paused and
    resumed (1) or left alone (2).  Checks values, time stamps, order, exactly-once and no delivery after stop."""
    cfg = SimulatorConfig(
        delay_on_trial_result=delays[0],
        delay_complete_after_final_report=delays[0] + delays[1],
        delay_complete_after_stop=delays[2],
        delay_start=delays[3],
        delay_stop=delays[4],
    )
    rows0 = [{"epoch": 1, "elapsed": elapsed[0], "loss": 10}, {"epoch": 2, "elapsed": elapsed[1], "loss": 20}]
    rows0b = [{"epoch": 2, "elapsed": elapsed[2], "loss": 21}]
    rows1 = [{"epoch": 1, "elapsed": elapsed[3], "loss": 30}]
    script = {0: [rows0, rows0b], 1: [rows1]}
    be = HarnessBackend(script, cfg)
    tk = be.time_keeper
    tk.start_of_time()
    t_prev = tk.time()
    be.start_trial({"x": 0})
    start = {0: tk.time()}
    running = [0]
    if stop_kind != 1:
        # pause / resume is exercised with a single trial (keeps the number of event orders manageable)
        be.start_trial({"x": 1})
        start[1] = tk.time()
        running = [0, 1]
        check("ids-in-sequence", be.trial_ids == [0, 1])
    check("time-monotone[start]", tk.time() >= t_prev)
    runrows = {0: rows0, 1: rows1}
    delivered = {0: [], 1: []}  # per trial: rows delivered in the current run
    for t in range(len(sleeps)):
        t_prev = tk.time()
        tk.advance(sleeps[t])
        status, results = be.fetch_status_results(running)
        now = tk.time()
        check("time-monotone[poll]", now >= t_prev + sleeps[t])
        for tid, res in results:
            k = len(delivered[tid])
            check("only-running-trials-deliver", tid in running)
            check("levels-consecutive-no-gap", k < len(runrows[tid]))
            row = runrows[tid][k]
            check("values-equal-table", res["epoch"] == row["epoch"] and res["loss"] == row["loss"] and res["elapsed"] == row["elapsed"])
            check("time-stamp", res["st_tuner_time"] == expected_time(start[tid], cfg, row))
            check("not-from-the-future", res["st_tuner_time"] <= now)
            delivered[tid].append(res)
        for tid in running:
            # nothing that is due has been held back
            k = len(delivered[tid])
            if k < len(runrows[tid]):
                check("due-results-delivered", expected_time(start[tid], cfg, runrows[tid][k]) > now)
        for tid in list(running):
            # the tuner stops polling a trial once the back end reports it completed: by then the whole
            # sequence of the run must have been delivered
            if status[tid][1] == "Completed":
                check("all-results-before-completion", len(delivered[tid]) == len(runrows[tid]))
                running.remove(tid)
        if 0 not in running:
            continue
        if t == 0 and stop_kind == 0:
            be.stop_trial(0)
            running = [1]
            check("time-monotone[stop]", tk.time() >= now)
        if t == 0 and stop_kind == 1:
            be.pause_trial(0)
            check("time-monotone[pause]", tk.time() >= now)
            be.resume_trial(0)
            start[0] = tk.time()
            # rows of the run that starts now: the first run may have been cancelled before it ever started
            runrows[0] = script[0][be._runs.get(0, 0)]
            delivered[0] = []
            check("status-running-after-resume", be._trial_dict[0].status == "InProgress")
    return True


@contract("contracts.c10:scenario_sim", props=("C10", "C02", "C01"))
class ScenarioSim:
    label = "SimulatorBackend[scenario]"
    params = dict(delays=List(Real), elapsed=List(Real), sleeps=List(Real), stop_kind=Int)
    unbounded = False
    shapes = [{"delays": 5, "elapsed": 4, "sleeps": 2, "stop_kind": k} for k in (0, 1, 2)]
    shapes_thorough = [{"delays": 5, "elapsed": 4, "sleeps": 3, "stop_kind": k} for k in (0, 1, 2)]

    def requires(s):
        return {
            "delays-nonneg": forall(range(0, len(s.delays)), lambda i: s.delays[i] >= 0),
            "elapsed-positive": forall(range(0, len(s.elapsed)), lambda i: s.elapsed[i] > 0),
            # within one run the elapsed-time column is increasing (the tabular back end repairs its table so)
            "elapsed-increasing-within-run": s.elapsed[0] < s.elapsed[1],
            "sleeps-nonneg": forall(range(0, len(s.sleeps)), lambda i: s.sleeps[i] >= 0),
        }

    def ensures(old, s, result):
        return {"completed": result == True}  # noqa: E712


# ---------------------------------------------------------------------------------------------
# SimulatorState: the event heap as a data structure with a representation invariant (bounded sizes)
# ---------------------------------------------------------------------------------------------

SIM_EV = "syne_tune.backend.simulator_backend.events"

declare_class("Event", SIM_EV + ":Event", dict(trial_id=Int))
declare_class("SimulatorState", SIM_EV + ":SimulatorState", dict(event_heap=List(Tup(Real, Int, Obj("Event"))), events_added=Int), inv="simstate_inv")


def key_le(a, b):
    """(time, counter) order of two heap entries"""
    return a[0] < b[0] or (a[0] == b[0] and a[1] <= b[1])


def simstate_inv(st):
    h = st.event_heap
    n = len(h)
    return {
        # binary-heap property: every parent is no later than its children
        "heap-property": forall(range(1, n), lambda i: key_le(h[(i - 1) // 2], h[i])),
        # insertion counters are unique and below the next counter (=> FIFO among equal times)
        "counters-unique": forall(range(0, n), lambda i: forall(range(0, n), lambda j: h[i][1] != h[j][1] if i < j else True)),
        "counters-below-next": st.events_added >= 0 and forall(range(0, n), lambda i: 0 <= h[i][1] and h[i][1] < st.events_added),
    }


def same_events(h1, h0, keep):
    """h1 holds exactly the entries of h0 selected by keep(entry) (as multisets; counters are unique keys)"""
    return forall(range(0, len(h0)), lambda i: exists(range(0, len(h1)), lambda j: h1[j][1] == h0[i][1] and h1[j][0] == h0[i][0] and h1[j][2].trial_id == h0[i][2].trial_id) if keep(h0[i]) else (not exists(range(0, len(h1)), lambda j: h1[j][1] == h0[i][1]))) and forall(
        range(0, len(h1)), lambda j: exists(range(0, len(h0)), lambda i: h1[j][1] == h0[i][1])
    )


@contract(SIM_EV + ":SimulatorState.remove_events", props=("C10", "C02", "C01"))
class SimState_remove_events:
    params = dict(self=Obj("SimulatorState"), trial_id=Int)
    unbounded = False
    shapes = [{"self.event_heap": k} for k in range(0, 6)]
    shapes_thorough = [{"self.event_heap": k} for k in range(0, 8)]

    def requires(s):
        return True

    def ensures(old, s, result):
        return {
            "exactly-the-other-trials": same_events(s.self.event_heap, old.self.event_heap, lambda e: e[2].trial_id != old.trial_id),
            "counter": s.self.events_added == old.self.events_added,
        }


@contract(SIM_EV + ":SimulatorState.push", props=("C10", "C01"))
class SimState_push:
    params = dict(self=Obj("SimulatorState"), event=Obj("Event"), event_time=Real)
    unbounded = False
    shapes = [{"self.event_heap": k} for k in range(0, 5)]

    def requires(s):
        return True

    def ensures(old, s, result):
        h1 = s.self.event_heap
        return {
            "added": len(h1) == len(old.self.event_heap) + 1 and exists(range(0, len(h1)), lambda j: h1[j][1] == old.self.events_added and h1[j][0] == old.event_time and h1[j][2].trial_id == old.event.trial_id),
            "others-kept": same_events(h1, old.self.event_heap, lambda e: True) if False else forall(range(0, len(old.self.event_heap)), lambda i: exists(range(0, len(h1)), lambda j: h1[j][1] == old.self.event_heap[i][1] and h1[j][0] == old.self.event_heap[i][0])),
            "counter": s.self.events_added == old.self.events_added + 1,
        }


@contract(SIM_EV + ":SimulatorState.next_until", props=("C10", "C01"))
class SimState_next_until:
    params = dict(self=Obj("SimulatorState"), time_until=Real)
    unbounded = False
    shapes = [{"self.event_heap": k} for k in range(0, 6)]

    def requires(s):
        return True

    def ensures(old, s, result):
        h0 = old.self.event_heap
        h1 = s.self.event_heap
        n = len(h0)
        if result is None:
            # nothing is due: every queued event is later than time_until
            return {"nothing-due": forall(range(0, n), lambda i: h0[i][0] > old.time_until), "frame": len(h1) == n}
        return {
            "due": result[0] <= old.time_until,
            # events come out in non-decreasing (time, counter) order: the returned one is the earliest
            "earliest": forall(range(0, n), lambda i: result[0] < h0[i][0] or (result[0] == h0[i][0])),
            "fifo-on-ties": exists(range(0, n), lambda i: h0[i][0] == result[0] and h0[i][2].trial_id == result[1].trial_id and forall(range(0, n), lambda j: h0[i][1] <= h0[j][1] if h0[j][0] == result[0] else True)),
            "removed-one": len(h1) == n - 1,
        }


# ---------------------------------------------------------------------------------------------
# BlackboxTabular._objective_function (index form): values and seed
# ---------------------------------------------------------------------------------------------

BB_TAB = "syne_tune.blackbox_repository.blackbox_tabular"

declare_class("BlackboxTabular", BB_TAB + ":BlackboxTabular", dict(num_seeds=Int, objectives_evaluations=Arr(Real)), inv="bbtab_inv")


def bbtab_inv(bb):
    return {"num_seeds": bb.num_seeds == bb.objectives_evaluations.shape[1]}


@contract(BB_TAB + ":BlackboxTabular._objective_function", props=("C10",))
class BBTab_objective_function:
    """the returned block is exactly the table's block for the requested configuration and seed
    (all fidelities, all objectives); an explicitly given seed (including 0) is the seed used"""

    params = dict(self=Obj("BlackboxTabular"), configuration=Int, seed=Opt(Int))
    unbounded = False
    shapes = [{"self.objectives_evaluations": [2, 2, 2, 2]}, {"self.objectives_evaluations": [2, 3, 1, 2]}]
    raises = {"AssertionError": "seed_out_of_range"}

    def requires(s):
        return {"config-index": 0 <= s.configuration and s.configuration < s.self.objectives_evaluations.shape[0]}

    def seed_out_of_range(old):
        return old.seed is not None and not (0 <= old.seed and old.seed < old.self.num_seeds)

    def ensures(old, s, result):
        tab = old.self.objectives_evaluations
        if old.seed is not None:
            return {"table-block-of-that-seed": unchanged(result, tab[old.configuration, old.seed, :, :]), "table-unchanged": unchanged(s.self.objectives_evaluations, tab)}
        return {
            "table-block-of-some-seed": exists(range(0, tab.shape[1]), lambda sd: unchanged(result, tab[old.configuration, sd, :, :])),
            "table-unchanged": unchanged(s.self.objectives_evaluations, tab),
        }


from pyvc.native import native_monitor  # noqa: E402

EXTRA_CHECKS = [native_monitor("C10", "contracts.c02_native", "monitor_delivery", "delivery", "about 1270 (thorough 4370) scenarios: real Tuner.run with a scripted scheduler (<= 3 workers, <= 5 trials, <= 3 runs per trial) on a generic poll back end (every batching of <= 3 results over <= 3 polls, decisions at every position, late output) and on the simulator with hand-made tables (elapsed-time dips / plateaus / noise at every position, pause / resume cycles, check-pointing on / off, hand-driven clock)")]
