"""C19 + C15 (native monitor) -- multi-objective ranking is Pareto-consistent and MOASHA follows it; minimising f and
maximising -f are the same MOASHA experiment.

``monitor_moasha(tier, seed)`` drives the REAL ``pareto_efficient`` / ``nondominated_sort`` / ``MOPriority`` classes and
the REAL ``MOASHA`` scheduler (``on_trial_add`` / ``on_trial_result`` / ``on_trial_complete`` / ``on_trial_remove``)
through a bounded catalogue (enumerated small cases + seed-dependent random ones) and compares every answer with an
independent reference written here.

Reference, derived from the property statement (not from the code):

* dominance: q dominates p iff q <= p in every coordinate and q < p in one.  Pareto mask = points nobody dominates;
  Pareto layers by brute-force peeling.  Comparisons of floats are exact, so there is no latitude in these clauses.
* non-dominated sort: every index once, earlier layer first; with ``max_items`` the first min(N, max_items) entries of
  such an order (nothing left out belongs to an earlier layer than something kept).  Inside a layer the documented
  order is: first the item with the lowest value in the preferred dimension (any of them if several; any item for
  dim=None), then always an item farthest from the ones already chosen (distance ties, also up to 1e-9 relative
  round-off, may go either way).
* rung rule: bracket s has the rung levels grace * rf^(s+k) <= max_t (exact rationals; whether a level equal to max_t
  exists cannot be observed and is left open).  A report is *recorded* at the highest rung level <= its resource unless
  the trial is already recorded there (so a trial that skips levels or first reports late is judged at the rung it
  ACTUALLY reached), once per rung, with the objectives mapped to minimisation (value * +-1 by the per-metric mode),
  whether it arrives through ``on_trial_result`` or ``on_trial_complete``.
  The set R of ranks the newcomer may have among all n trials recorded at the rung, itself included, is computed from
  the reference order (layers, then all in-layer orders the documented epsilon net allows; items cut off by
  ``max_num_samples`` / equal scalar priorities are tied and may be ordered either way).  CONTINUE is admissible iff
  some r in R has r/n <= 1/rf, STOP iff some r in R has r/n >= 1/rf (exact rational arithmetic): a rank fraction of
  exactly 1/rf may go either way (documented latitude).  Every report with resource >= max_t must be answered STOP.
  A report that reaches no new rung must be answered CONTINUE and must not be recorded anywhere.
* C15 twin: a second scheduler gets the same events with permuted metric order, flipped per-metric modes and negated
  values; bracket choice and every decision must be identical (negation is exact; permuted order only on dyadic /
  integer tables where sums of squares are exact, so the statement's "general position" proviso is not needed).

Statement level versus documentation level.  The property statement fixes the order of the Pareto LAYERS only, so the
clauses M_CONT / M_STOP / M_FIRST leave the order inside a layer completely open (admissible ranks = the whole span of
the newcomer's layer).  The docstrings of ``nondominated_sort`` / ``compute_epsilon_net`` / ``NonDominatedPriority``
additionally fix the order inside a layer (preferred dimension first, then farthest point first); that is checked by
clauses of their own (S_FIRST, S_FAR on the sort, M_EPS on the MOASHA decisions the layers alone leave open).

Clauses kept separate because the unchanged tree violates them (KNOWN_OPEN; they never end a scenario of the other
clauses and have a scenario family / evaluation points of their own):
* S_FIRST, S_FAR, M_EPS -- one root cause: ``compute_epsilon_net`` returns RANKS ("convert argsort indices to rank")
  but ``nondominated_sort`` indexes the layer with them as if they were an ORDER, so the order inside a layer is the
  inverse permutation of the epsilon net (``nondominated_sort([[4,4],[0,10],[10,0]], dim=0)`` = [2, 0, 1]: starts with
  the WORST point in the preferred dimension; documented: [1, 2, 0]).
* BACKFILL -- a trial that skipped a rung level (first report late / sparse reports) and then reports WITHOUT reaching
  a new rung is recorded, with its late metrics, at the skipped lower level and judged (possibly stopped) against that
  rung.  Family "backfill" only; the other families never deliver such a report.

Bounded stand-in, never counted as proved.
"""
import sys

sys.modules.setdefault("yahpo_gym", None)

import contextlib
import io
import itertools
import logging
import math
import traceback
from datetime import datetime
from fractions import Fraction

import numpy as np

TIME = "step"
STOP, CONTINUE = "STOP", "CONTINUE"

# clause names ------------------------------------------------------------------------------------------------
C_EXC = "library-call-raises-no-exception"
P_SHAPE = "pareto-filter-returns-one-boolean-per-point"
P_EXACT = "pareto-filter-marks-exactly-the-points-no-other-point-dominates"
S_ONCE = "nondominated-sort-returns-every-index-exactly-once"
S_LAYER = "nondominated-sort-ranks-every-point-of-an-earlier-pareto-layer-before-every-point-of-a-later-one"
S_LEN = "nondominated-sort-with-max-items-returns-min-n-max-items-distinct-valid-indices"
S_PREFIX = "nondominated-sort-with-max-items-leaves-out-no-point-of-an-earlier-layer-than-one-it-keeps"
S_LISTS = "nondominated-sort-unflattened-lists-are-exactly-the-pareto-layers-and-flatten-concatenates-them"
S_FIRST = "nondominated-sort-first-item-of-each-layer-has-lowest-value-in-preferred-dimension"
S_FAR = "nondominated-sort-in-layer-order-always-takes-an-item-farthest-from-those-already-chosen"
R_ND = "nondominated-priority-one-value-per-point-strictly-lower-for-earlier-layer-cut-off-items-ranked-last"
R_FIX = "fixed-objective-priority-is-the-chosen-objective"
R_LIN = "linear-scalarization-priority-orders-points-by-weighted-sum"
M_NAMES = "scheduler-reports-metric-names-and-modes-as-configured"
M_LEVELS = "bracket-rung-levels-are-grace-times-rf-powers-below-max-resource-highest-first"
M_ADD = "new-trial-is-assigned-to-exactly-one-existing-bracket"
M_MAXT = "report-at-or-beyond-max-resource-is-answered-stop"
M_BELOW = "report-below-first-rung-level-of-its-bracket-continues"
M_BETWEEN = "report-reaching-no-new-rung-continues-when-no-level-was-skipped"
M_FIRST = "first-trial-recorded-at-a-rung-continues"
M_CONT = "trial-whose-rank-among-all-recorded-at-its-rung-is-within-best-1-over-rf-fraction-continues"
M_STOP = "trial-whose-rank-among-all-recorded-at-its-rung-is-beyond-best-1-over-rf-fraction-stops"
M_REC = "each-trial-recorded-once-per-rung-at-the-highest-level-it-actually-reached-and-nowhere-else"
M_SIGN_R = "objectives-recorded-via-on-trial-result-are-values-times-per-metric-mode-sign-in-metric-order"
M_SIGN_C = "objectives-recorded-via-on-trial-complete-use-the-same-sign-convention-as-on-trial-result"
M_FORGET = "stopped-completed-or-removed-trial-is-forgotten-while-its-rung-records-stay"
T_TWIN = "decisions-and-brackets-identical-for-modes-on-f-and-flipped-modes-on-minus-f-with-permuted-metric-order"
M_EPS = "decision-agrees-with-documented-epsilon-net-order-inside-the-pareto-layer-where-the-layers-alone-leave-it-open"
BACKFILL = "report-reaching-no-new-rung-after-a-skipped-level-continues-and-is-not-recorded-at-the-skipped-level"

CLAUSES = [
    C_EXC, P_SHAPE, P_EXACT, S_ONCE, S_LAYER, S_LEN, S_PREFIX, S_LISTS, S_FIRST, S_FAR, R_ND, R_FIX, R_LIN,
    M_NAMES, M_LEVELS, M_ADD, M_MAXT, M_BELOW, M_BETWEEN, M_FIRST, M_CONT, M_STOP, M_REC, M_SIGN_R, M_SIGN_C,
    M_FORGET, T_TWIN, M_EPS, BACKFILL,
]
# clauses with scenarios of their own (a discrepancy on the unchanged tree is reported under these names only)
KNOWN_OPEN = {BACKFILL, S_FIRST, S_FAR, M_EPS}
MAX_VIOL = 5
REL = 1e-9  # relative round-off band for distance / weighted-sum ties


class _Abort(Exception):
    pass


def _js(x):
    if isinstance(x, dict):
        return {str(k): _js(v) for k, v in x.items()}
    if isinstance(x, (list, tuple, set, frozenset)):
        return [_js(v) for v in (sorted(x, key=str) if isinstance(x, (set, frozenset)) else x)]
    if isinstance(x, np.ndarray):
        return _js(x.tolist())
    if isinstance(x, np.generic):
        return x.item()
    if isinstance(x, Fraction):
        return float(x)
    if isinstance(x, (int, float, str, bool)) or x is None:
        return x
    return str(x)


class Recorder:
    def __init__(self):
        self.count = {c: 0 for c in CLAUSES}
        self.viol = {c: [] for c in CLAUSES}
        self.total = 0
        self.cover = {"open_at_exact_fraction": 0, "open_by_tie": 0, "must_continue": 0, "must_stop": 0,
                      "skipped_level": 0, "complete_recorded": 0, "twin_steps": 0, "multi_item_layer": 0,
                      "cut_off": 0}

    def check(self, clause, ok, ctx=None, fatal=False, **details):
        self.count[clause] += 1
        self.total += 1
        if not ok:
            if len(self.viol[clause]) < MAX_VIOL:
                d = {"clause": clause}
                if ctx is not None:
                    d.update(ctx())
                d.update(details)
                self.viol[clause].append(_js(d))
            if fatal:
                raise _Abort()
        return bool(ok)


# --------------------------------------------------------------------------------------------------------------
# independent reference pieces
# --------------------------------------------------------------------------------------------------------------
def ref_dominates(q, p):
    return all(a <= b for a, b in zip(q, p)) and any(a < b for a, b in zip(q, p))


def ref_mask(V, idx=None):
    idx = list(range(len(V))) if idx is None else idx
    return [not any(ref_dominates(V[j], V[i]) for j in idx if j != i) for i in idx]


def ref_layers(V):
    """layer number of every point, by brute-force peeling"""
    layer = [None] * len(V)
    left = list(range(len(V)))
    k = 0
    while left:
        m = ref_mask(V, left)
        for i, f in zip(left, m):
            if f:
                layer[i] = k
        left = [i for i, f in zip(left, m) if not f]
        k += 1
    return layer


def _sq(a, b):
    return sum((x - y) * (x - y) for x, y in zip(a, b))


def ref_layer_order_ok(V, members, lst, dim):
    """is ``lst`` (a prefix of) an admissible epsilon-net order of the layer ``members``?  -> (first_ok, far_ok, info)"""
    first_ok, far_ok, info = True, True, None
    if not lst:
        return first_ok, far_ok, info
    if dim is not None:
        mn = min(V[i][dim] for i in members)
        if V[lst[0]][dim] != mn:
            first_ok, info = False, {"first": lst[0], "its_value": V[lst[0]][dim], "lowest": mn}
    chosen = [lst[0]]
    rest = set(members) - {lst[0]}
    for k in range(1, len(lst)):
        mind = {i: min(_sq(V[i], V[c]) for c in chosen) for i in rest}
        mx = max(mind.values())
        if lst[k] not in mind or mind[lst[k]] < mx * (1 - REL):
            far_ok = False
            info = {"position_in_layer": k, "taken": lst[k], "its_sq_distance": mind.get(lst[k]), "largest_sq_distance": mx}
            break
        chosen.append(lst[k])
        rest.discard(lst[k])
    return first_ok, far_ok, info


def ref_epsnet_positions(V, members, target, dim):
    """all positions the item ``target`` can take in an admissible epsilon-net order of the layer ``members``"""
    m = len(members)
    if m == 1:
        return {0}
    tk = members.index(target)
    D2 = [[_sq(V[a], V[b]) for b in members] for a in members]
    if dim is None:
        seeds = list(range(m))
    else:
        mn = min(V[i][dim] for i in members)
        seeds = [k for k, i in enumerate(members) if V[i][dim] == mn]
    out, seen = set(), set()

    def rec(mask, cnt, mind):
        if mask in seen:
            return
        seen.add(mask)
        rem = [k for k in range(m) if not (mask >> k) & 1]
        mx = max(mind[k] for k in rem)
        thr = mx * (1 - REL)
        for c in rem:
            if mind[c] >= thr:
                if c == tk:
                    out.add(cnt)
                else:
                    rec(mask | (1 << c), cnt + 1, [min(a, b) for a, b in zip(mind, D2[c])])

    for s in seeds:
        if s == tk:
            out.add(0)
        else:
            rec(1 << s, 1, list(D2[s]))
    return out


def ref_levels(grace, rf, max_t, s):
    """rung levels of bracket s, exact, highest first (a level equal to max_t is included)"""
    rf = Fraction(rf)
    out, k = [], s
    while True:
        lv = Fraction(grace) * rf ** k
        if lv > max_t:
            break
        out.append(lv)
        k += 1
    return out[::-1]


def expand_modes(mode, d):
    if mode is None:
        return ["min"] * d
    if isinstance(mode, str):
        return [mode] * d
    return list(mode)


def flip(m):
    return "max" if m == "min" else "min"


# --------------------------------------------------------------------------------------------------------------
# part 1: pareto_efficient / nondominated_sort / priorities on point sets
# --------------------------------------------------------------------------------------------------------------
HAND_SETS = [
    [[1, 1], [1, 2], [2, 1], [3, 3]],
    [[0, 5], [0, 5], [0, 6], [5, 0], [5, 0], [6, 0]],
    [[2], [1], [1], [3]],
    [[1, 1, 7], [2, 2, 7], [3, 3, 7]],
    [[0, 2], [1, 1], [2, 0]],
    [[0, 1], [1, 0], [2, 3], [3, 2]],
    [[0, 0], [1, 2], [2, 1], [3, 5], [4, 4], [5, 3]],
    [[1, 1], [1, 1], [1, 2], [2, 1], [2, 2], [2, 2]],
    [[0, 0, 0], [1, 1, 1], [2, 2, 2], [3, 3, 3]],
    [[1], [0], [1], [2], [0]],
    [[2, 2], [0, 0], [1, 1]],
    [[0.5, -1.25], [-0.5, 1.0], [0.5, 1.0], [-0.5, -1.25]],
    [[0, 0, 0, 0, 1], [0, 0, 0, 1, 0], [0, 0, 1, 0, 0], [0, 1, 0, 0, 0], [1, 0, 0, 0, 0], [1, 1, 1, 1, 1]],
]


def point_sets(tier, seed):
    thorough = tier != "quick"
    for X in HAND_SETS:
        yield "hand", np.array(X, dtype=float)
    for d in range(1, 6):
        yield "empty", np.zeros((0, d))
    # exhaustive small grids
    grids = [(1, 3, 4), (2, 2, 4 if thorough else 3), (2, 3, 3 if thorough else 2), (3, 2, 3 if thorough else 2)]
    for d, g, nmax in grids:
        pts = list(itertools.product(range(g), repeat=d))
        for n in range(1, nmax + 1):
            for tup in itertools.product(pts, repeat=n):
                yield "exhaustive", np.array(tup, dtype=float).reshape(n, d)
    if not thorough:
        # a seed-dependent slice of the next size
        rs = np.random.RandomState(1000 + seed)
        pts = list(itertools.product(range(2), repeat=2))
        for _ in range(60):
            yield "exhaustive-sample", np.array([pts[i] for i in rs.randint(0, 4, size=4)], dtype=float)
    rs = np.random.RandomState(77 + seed)
    count = 1500 if thorough else 260
    for i in range(count):
        d = 1 + i % 5
        n = int(rs.randint(1, 13 if thorough else 10))
        kind = (i // 5) % 8
        if kind == 0:
            X = rs.randint(0, 2, size=(n, d)).astype(float)
        elif kind == 1:
            X = rs.randint(0, 3, size=(n, d)).astype(float)
        elif kind == 2:
            X = rs.randint(0, 5, size=(n, d)).astype(float)
        elif kind == 3:
            X = rs.randn(n, d)
        elif kind == 4:  # chain
            q = rs.permutation(n).astype(float)
            X = np.stack([q * (j + 1) - j for j in range(d)], axis=1)
        elif kind == 5:  # general position with duplicated rows
            base = rs.randn(max(1, n // 2), d)
            X = base[rs.randint(0, len(base), size=n)]
        elif kind == 6:  # negative dyadic values
            X = rs.randint(-8, 9, size=(n, d)) / 4.0
        else:  # one constant coordinate
            X = rs.randint(0, 3, size=(n, d)).astype(float)
            X[:, int(rs.randint(0, d))] = 1.0
        yield "random", np.array(X, dtype=float)


def direct_checks(rec, lib, tier, seed):
    pareto_efficient, nondominated_sort = lib["pareto_efficient"], lib["nondominated_sort"]
    nsets = 0
    samples = []
    thorough = tier != "quick"
    rs = np.random.RandomState(4242 + seed)
    for label, X in point_sets(tier, seed):
        nsets += 1
        n, d = X.shape
        V = X.tolist()
        if label == "random" and len(samples) < 1:
            samples.append({"part": "point-set", "kind": label, "X": V})

        def ctx(**kw):
            return lambda: dict({"part": "point-set", "kind": label, "X": V}, **kw)

        def call(what, fn, *a, **k):
            try:
                r = fn(*a, **k)
            except Exception as e:  # noqa
                rec.check(C_EXC, False, ctx(call=what), error="%s: %s" % (type(e).__name__, e),
                          trace=traceback.format_exc()[-600:])
                return None, False
            rec.check(C_EXC, True)
            return r, True

        layer = ref_layers(V)
        nlayers = (max(layer) + 1) if n else 0
        members = [[i for i in range(n) if layer[i] == k] for k in range(nlayers)]
        # ---- Pareto filter
        mask, ok = call("pareto_efficient", pareto_efficient, X.copy())
        if ok:
            shape_ok = isinstance(mask, np.ndarray) and mask.shape == (n,) and mask.dtype == bool
            rec.check(P_SHAPE, shape_ok, ctx(), returned=repr(mask)[:200])
            if shape_ok:
                want = ref_mask(V)
                rec.check(P_EXACT, mask.tolist() == want, ctx(), returned=mask.tolist(), expected=want)
        # ---- non-dominated sort
        dims = list(range(d)) + [None]
        if label in ("exhaustive", "exhaustive-sample") and d > 1:
            dims = [nsets % d, None] if nsets % 3 else list(range(d)) + [None]
        for dim in dims:
            if n <= 6 or thorough:
                mis = [None] + list(range(1, n + 3))
            else:
                mis = [None, 1, n - 1, n, n + 1] + [int(v) for v in rs.randint(2, n, size=2)]
            for mi in mis:
                st = np.random.get_state()
                np.random.seed(nsets * 7 + (0 if dim is None else dim + 1))
                lists, ok1 = call("nondominated_sort(flatten=False)", nondominated_sort, X.copy(), dim, mi, False)
                np.random.seed(nsets * 7 + (0 if dim is None else dim + 1))
                flat, ok2 = call("nondominated_sort", nondominated_sort, X.copy(), dim=dim, max_items=mi)
                np.random.set_state(st)
                if not (ok1 and ok2):
                    continue
                c = ctx(dim=dim, max_items=mi, returned=flat, returned_unflattened=lists, layers=layer)
                try:
                    flat = [int(i) for i in flat]
                    lists = [[int(i) for i in l] for l in lists]
                except Exception:
                    rec.check(S_LEN if mi is not None else S_ONCE, False, c, note="result is not a list of indices")
                    continue
                valid = all(0 <= i < n for i in flat) and len(set(flat)) == len(flat)
                if mi is None:
                    rec.check(S_ONCE, valid and sorted(flat) == list(range(n)), c)
                else:
                    rec.check(S_LEN, valid and len(flat) == min(n, mi), c, expected_length=min(n, mi))
                if not valid:
                    continue
                seq = [layer[i] for i in flat]
                rec.check(S_LAYER, seq == sorted(seq), c, layers_along_result=seq)
                if mi is not None:
                    kept = set(flat)
                    worst = max(seq) if seq else -1
                    left = [i for i in range(n) if i not in kept and layer[i] < worst]
                    rec.check(S_PREFIX, not left, c, left_out_from_earlier_layer=left)
                # unflattened lists
                conc = [i for l in lists for i in l]
                lists_ok = conc == flat and all(len(l) > 0 for l in lists)
                if lists_ok:
                    for k, l in enumerate(lists):
                        full = k < len(lists) - 1 or mi is None or len(flat) == n
                        if k >= nlayers or not set(l) <= set(members[k]) or (full and set(l) != set(members[k])):
                            lists_ok = False
                rec.check(S_LISTS, lists_ok, c)
                if not lists_ok:
                    continue
                for k, l in enumerate(lists):
                    if len(members[k]) > 1:
                        rec.cover["multi_item_layer"] += 1
                    f_ok, far_ok, info = ref_layer_order_ok(V, members[k], l, dim)
                    if dim is not None:
                        rec.check(S_FIRST, f_ok, c, layer_index=k, info=info)
                    if len(l) > 1:
                        rec.check(S_FAR, far_ok, c, layer_index=k, info=info)
        # ---- priorities
        if n == 0:
            continue
        ks = [None, 1, max(1, n // 2), n, n + 2] if (n <= 6 or thorough) else [None, max(1, n // 2)]
        for dim in ([0, d - 1] if d > 1 else [0]) + ([None] if nsets % 4 == 0 else []):
            for k in ks:
                st = np.random.get_state()
                np.random.seed(nsets)
                names = ["m%d" % j for j in range(d)] if nsets % 2 else None
                pr, ok = call("NonDominatedPriority", lambda: lib["NonDominatedPriority"](metrics=names, dim=dim, max_num_samples=k)(X.copy()))
                np.random.set_state(st)
                if not ok:
                    continue
                c = ctx(priority="NonDominatedPriority", dim=dim, max_num_samples=k, returned=np.asarray(pr).tolist(), layers=layer)
                good = isinstance(pr, np.ndarray) and pr.shape == (n,)
                if good:
                    p = [float(v) for v in pr]
                    m = n if k is None else min(n, k)
                    order = sorted(range(n), key=lambda i: p[i])
                    listed, cut = order[:m], order[m:]
                    if cut:
                        rec.cover["cut_off"] += 1
                    # listed items are ranked individually, cut-off items after all of them
                    good = all(p[listed[a]] < p[listed[a + 1]] for a in range(m - 1))
                    good = good and all(p[listed[-1]] < p[j] for j in cut)
                    # earlier layer => strictly lower priority, unless both were cut off (then not higher)
                    for i in range(n):
                        for j in range(n):
                            if layer[i] < layer[j]:
                                if (i in cut and j in cut and p[i] > p[j]) or (not (i in cut and j in cut) and not p[i] < p[j]):
                                    good = False
                rec.check(R_ND, good, c)
        for dim in range(d):
            pr, ok = call("FixedObjectivePriority", lambda: lib["FixedObjectivePriority"](dim=dim)(X.copy()))
            if ok:
                rec.check(R_FIX, isinstance(pr, np.ndarray) and pr.shape == (n,) and pr.tolist() == [v[dim] for v in V],
                          ctx(priority="FixedObjectivePriority", dim=dim, returned=np.asarray(pr).tolist()))
        pr0, ok = call("FixedObjectivePriority()", lambda: lib["FixedObjectivePriority"]()(X.copy()))
        if ok:
            rec.check(R_FIX, np.asarray(pr0).tolist() == [v[0] for v in V], ctx(priority="FixedObjectivePriority()", returned=np.asarray(pr0).tolist()))
        for w in (None, [float(j + 1) for j in range(d)], [(-0.5) ** j for j in range(d)]):
            pr, ok = call("LinearScalarizationPriority", lambda: lib["LinearScalarizationPriority"](weights=None if w is None else np.array(w))(X.copy()))
            if ok:
                ww = [1.0] * d if w is None else w
                ws = [math.fsum(a * b for a, b in zip(ww, v)) for v in V]
                scale = max(1.0, max(abs(s) for s in ws))
                good = isinstance(pr, np.ndarray) and pr.shape == (n,)
                if good:
                    for i in range(n):
                        for j in range(n):
                            if ws[i] < ws[j] - REL * scale and not pr[i] < pr[j]:
                                good = False
                rec.check(R_LIN, good, ctx(priority="LinearScalarizationPriority", weights=w, returned=np.asarray(pr).tolist()))
    return nsets, samples


# --------------------------------------------------------------------------------------------------------------
# part 2: the MOASHA scheduler
# --------------------------------------------------------------------------------------------------------------
def make_table(kind, seed, n, T, d):
    """objective vectors in the minimisation convention, [n, T + 1, d]; the reported value of metric j is
    sign_j * table[..., j] (exact)"""
    rs = np.random.RandomState(seed)
    if kind == "chain":  # all vectors comparable and distinct: no ties at all
        q = rs.permutation(n * (T + 1)).reshape(n, T + 1).astype(float) + 1.0
        coef = [(1.0, 0.0), (2.0, -3.0), (0.5, 7.0), (4.0, 1.0), (1.0, -50.0)]
        return np.stack([q * coef[j][0] + coef[j][1] for j in range(d)], axis=-1)
    if kind == "grid2":
        return rs.randint(0, 2, size=(n, T + 1, d)).astype(float)
    if kind == "grid4":
        return rs.randint(0, 4, size=(n, T + 1, d)).astype(float)
    if kind == "dyadic":
        return rs.randint(-8, 9, size=(n, T + 1, d)) / 4.0
    if kind == "general":
        return rs.randn(n, T + 1, d)
    if kind == "dup":  # trials share learning curves -> duplicates
        base = rs.randint(0, 3, size=(3, T + 1, d)).astype(float)
        return base[np.arange(n) % 3]
    if kind == "const":  # a trial reports the same vector at every resource
        base = rs.randint(0, 4, size=(n, 1, d)).astype(float)
        return np.repeat(base, T + 1, axis=1)
    if kind == "front":  # every vector on one anti-chain (d >= 2): one big Pareto layer, the epsilon net decides
        q = rs.permutation(n * (T + 1)).reshape(n, T + 1).astype(float)
        cols = [q, -q] + [np.zeros_like(q)] * (d - 2)
        return np.stack(cols[:d], axis=-1) if d >= 2 else q[..., None]
    raise ValueError(kind)


EXACT_TABLES = {"chain", "grid2", "grid4", "dyadic", "dup", "const", "front"}


class Sim:
    def __init__(self, spec, rec, lib):
        self.spec, self.rec, self.lib = spec, rec, lib
        self.d = spec["d"]
        self.names = ["obj%d" % j for j in range(self.d)]
        self.modes = expand_modes(spec["mode"], self.d)
        self.sign = [1.0 if m == "min" else -1.0 for m in self.modes]
        self.max_t, self.grace, self.rf, self.nb = spec["max_t"], spec["grace"], spec["rf"], spec["brackets"]
        self.frf = Fraction(self.rf)
        self.levels = [ref_levels(self.grace, self.rf, self.max_t, s) for s in range(self.nb)]
        self.records = [{lv: {} for lv in self.levels[s]} for s in range(self.nb)]  # level -> tid -> vector
        self.bracket = {}
        self.events = []
        self.backfill_family = spec["family"] == "backfill"
        self.rs = np.random.RandomState(spec["seed"])
        self.T = self.max_t + 2
        if "vectors" in spec:
            self.table = np.array(spec["vectors"], dtype=float)
        else:
            self.table = make_table(spec["table"], spec["seed"] + 1, spec["n_trials"], self.T, self.d)
        self.perm = spec.get("twin")
        self.prim = None
        self.twin = None

    # ---------------------------------------------------------------- helpers
    def ctx(self):
        s = {k: v for k, v in self.spec.items() if k not in ("vectors",)}
        if "vectors" in self.spec:
            s["vectors"] = self.spec["vectors"]
        return {"scenario": s, "events_so_far[trial,resource,route,answer]": self.events[-60:]}

    def check(self, clause, ok, fatal=True, **details):
        return self.rec.check(clause, ok, self.ctx, fatal=fatal, **details)

    def call(self, what, fn, *a, **k):
        try:
            r = fn(*a, **k)
        except Exception as e:  # noqa
            self.check(C_EXC, False, call=what, error="%s: %s" % (type(e).__name__, e), trace=traceback.format_exc()[-700:])
            raise
        self.rec.check(C_EXC, True)
        return r

    def both(self, what, fprim, ftwin):
        """call the primary scheduler and -- from the same numpy random state -- the twin"""
        if self.twin is None:
            return self.call(what, fprim), None
        st = np.random.get_state()
        a = self.call(what, fprim)
        after = np.random.get_state()
        np.random.set_state(st)
        b = self.call(what + " [twin]", ftwin)
        np.random.set_state(after)
        return a, b

    def make_prio(self, perm):
        p = self.spec["prio"]
        if p is None:
            if perm is None:
                return None
            p = {"kind": "nd", "dim": 0, "k": None}  # the default prefers the FIRST metric: say so in the permuted twin
        pos = (lambda j: j) if perm is None else (lambda j: perm.index(j))
        names = None
        if p.get("named"):
            names = list(self.names) if perm is None else [self.names[j] for j in perm]
        if p["kind"] == "nd":
            dim = p["dim"]
            return self.lib["NonDominatedPriority"](metrics=names, dim=None if dim is None else pos(dim), max_num_samples=p.get("k"))
        if p["kind"] == "fixed":
            return self.lib["FixedObjectivePriority"](metrics=names, dim=pos(p["dim"]))
        if p["kind"] == "linear":
            w = p.get("w")
            if w is not None:
                w = np.array(w if perm is None else [w[j] for j in perm], dtype=float)
            return self.lib["LinearScalarizationPriority"](metrics=names, weights=w)
        raise ValueError(p)

    def make_scheduler(self, perm):
        spec = self.spec
        if perm is None:
            names, mode = list(self.names), spec["mode"]
        else:
            names = [self.names[j] for j in perm]
            m = spec["mode"]
            mode = flip(m or "min") if (m is None or isinstance(m, str)) else [flip(m[j]) for j in perm]
        kw = dict(config_space={"x": self.lib["randint"](0, 100)}, metrics=names, time_attr=TIME,
                  max_t=self.max_t, grace_period=self.grace, reduction_factor=self.rf, brackets=self.nb)
        if not (perm is None and mode is None and spec.get("omit_mode")):
            kw["mode"] = mode
        pr = self.make_prio(perm)
        if pr is not None:
            kw["multiobjective_priority"] = pr
        return self.lib["MOASHA"](**kw), names, mode

    def trial(self, tid):
        return self.lib["Trial"](trial_id=tid, config={"x": tid}, creation_time=datetime(2024, 1, 1))

    def raw(self, tid, t):
        v = self.table[tid, min(t, self.T)]
        return [float(self.sign[j] * v[j]) for j in range(self.d)]

    def result_dict(self, tid, t, twin):
        raw = self.raw(tid, t)
        items = [(self.names[j], (-raw[j] if twin else raw[j])) for j in range(self.d)]
        items += [(TIME, t), ("unrelated", 123.0 + tid)]
        k = (tid + t) % len(items)  # key order of the report must not matter
        items = items[k:] + items[:k]
        return dict(items)

    # ---------------------------------------------------------------- reference
    def vec(self, tid, t):
        raw = self.raw(tid, t)
        return [self.sign[j] * raw[j] for j in range(self.d)]

    def feasible_ranks(self, vecs, documented_order=False):
        """ranks (number of trials ranked before it) the last vector may have among ``vecs``; with
        ``documented_order`` the order inside a Pareto layer is the documented epsilon net, otherwise it is open"""
        n = len(vecs)
        p = self.spec["prio"] or {"kind": "nd", "dim": 0, "k": None}
        if p["kind"] == "fixed":
            col = [v[p["dim"]] for v in vecs]
            lo = sum(1 for x in col[:-1] if x < col[-1])
            hi = sum(1 for x in col[:-1] if x <= col[-1])
            return set(range(lo, hi + 1))
        if p["kind"] == "linear":
            w = p.get("w") or [1.0] * self.d
            ws = [math.fsum(a * b for a, b in zip(w, v)) for v in vecs]
            tol = REL * max(1.0, max(abs(x) for x in ws))
            lo = sum(1 for x in ws[:-1] if x < ws[-1] - tol)
            hi = sum(1 for x in ws[:-1] if x <= ws[-1] + tol)
            return set(range(lo, hi + 1))
        layer = ref_layers(vecs)
        mine = layer[-1]
        before = sum(1 for l in layer if l < mine)
        members = [i for i in range(n) if layer[i] == mine]
        if len(members) > 1:
            self.rec.cover["multi_item_layer"] += 1
        if documented_order:
            G = {before + q for q in ref_epsnet_positions(vecs, members, n - 1, p["dim"])}
        else:  # the statement fixes the order of the layers only
            G = set(range(before, before + len(members)))
        k = p.get("k")
        if k is None:
            return G
        m = min(n, k)
        R = set()
        for g in G:
            if g < m:
                R.add(g)
            else:  # cut off: tied with every other cut-off item, ranked after the m listed ones
                self.rec.cover["cut_off"] += 1
                R.update(range(m, n))
        return R

    def highest(self, b, t):
        for lv in self.levels[b]:  # highest first
            if lv <= t:
                return lv
        return None

    def skipped(self, b, tid, h):
        return [lv for lv in self.levels[b] if lv < h and tid not in self.records[b][lv]]

    def classify(self, tid, t):
        """-> (kind, level): 'below' | 'new' | 'same' | 'backfill'"""
        b = self.bracket[tid]
        h = self.highest(b, t)
        if h is None:
            return "below", None
        if tid not in self.records[b][h]:
            return "new", h
        if self.skipped(b, tid, h):
            return "backfill", h
        return "same", h

    def no_new_rung_after_skip(self, tid, t, via_complete):
        if not via_complete and t >= self.max_t:
            return False
        return self.classify(tid, t)[0] == "backfill"

    # ---------------------------------------------------------------- comparing the rung records
    def impl_rungs(self, b):
        out = {}
        for milestone, recorded in self.prim._brackets[b]._rungs:
            out[float(milestone)] = recorded
        return out

    def compare_records(self, b, clause, just=None, route=None):
        impl = self.impl_rungs(b)
        diffs = []
        for lv in self.levels[b]:
            got = impl.get(float(lv))
            if got is None:
                if lv < self.max_t:
                    diffs.append({"level": float(lv), "problem": "no such rung in the scheduler"})
                continue
            want = self.records[b][lv]
            if set(got.keys()) != set(want.keys()):
                diffs.append({"level": float(lv), "recorded_trials": sorted(got.keys()), "expected_trials": sorted(want.keys())})
        for ms, got in impl.items():
            if got and not any(float(lv) == ms for lv in self.levels[b]):
                diffs.append({"level": ms, "problem": "records at a level that is no rung level of this bracket", "recorded_trials": sorted(got.keys())})
        self.check(clause, not diffs, bracket=b, differences=diffs[:6])
        if just is not None:
            tid, lv = just
            got = impl.get(float(lv), {}).get(tid)
            want = self.records[b][lv][tid]
            ok = isinstance(got, dict) and list(got.keys()) == self.names and [got[m] for m in self.names] == want
            self.check(M_SIGN_R if route == "result" else M_SIGN_C, ok, bracket=b, level=float(lv), trial=tid,
                       recorded=got, expected=dict(zip(self.names, want)), modes=self.modes)

    # ---------------------------------------------------------------- events
    def add(self, tid):
        tr = self.trial(tid)
        self.both("on_trial_add", lambda: self.prim.on_trial_add(tr), lambda: self.twin.on_trial_add(self.trial(tid)))
        info = self.prim._trial_info.get(tid)
        idx = [i for i, br in enumerate(self.prim._brackets) if br is info]
        self.check(M_ADD, len(idx) == 1 and len(self.prim._brackets) == self.nb, trial=tid, brackets_found=idx)
        self.bracket[tid] = idx[0]
        if self.twin is not None:
            tinfo = self.twin._trial_info.get(tid)
            tidx = [i for i, br in enumerate(self.twin._brackets) if br is tinfo]
            self.rec.cover["twin_steps"] += 1
            self.check(T_TWIN, tidx == idx, what="bracket of new trial", trial=tid, bracket=idx, twin_bracket=tidx, twin_metric_order=self.perm)
        self.events.append([tid, None, "add", idx[0]])

    def report(self, tid, t):
        """deliver one report through on_trial_result; returns the scheduler's answer"""
        b = self.bracket[tid]
        kind, h = self.classify(tid, t) if t < self.max_t else ("max", None)
        tr = self.trial(tid)
        got, tgot = self.both("on_trial_result", lambda: self.prim.on_trial_result(tr, self.result_dict(tid, t, False)),
                              lambda: self.twin.on_trial_result(self.trial(tid), self.result_dict(tid, t, True)))
        self.events.append([tid, t, "result", got])
        common = dict(trial=tid, resource=t, bracket=b, answer=got, reported=self.result_dict(tid, t, False))
        if kind == "backfill":
            # own clause, own family: the reference says nothing is recorded and the trial continues
            impl = self.impl_rungs(b)
            changed = [float(lv) for lv in self.levels[b] if set(impl.get(float(lv), {}).keys()) != set(self.records[b][lv].keys())]
            self.check(BACKFILL, got == CONTINUE and not changed, already_recorded_at=float(h),
                       skipped_levels=[float(x) for x in self.skipped(b, tid, h)], levels_whose_records_changed=changed,
                       rung_levels=[float(x) for x in self.levels[b]], **common)
        elif kind == "max":
            self.check(M_MAXT, got == STOP, max_t=self.max_t, **common)
            self.compare_records(b, M_REC)
        elif kind == "below":
            self.check(M_BELOW, got == CONTINUE, rung_levels=[float(x) for x in self.levels[b]], **common)
            self.compare_records(b, M_REC)
        elif kind == "same":
            self.check(M_BETWEEN, got == CONTINUE, already_recorded_at=float(h), **common)
            self.compare_records(b, M_REC)
        else:
            recd = self.records[b][h]
            if self.skipped(b, tid, h):
                self.rec.cover["skipped_level"] += 1
            mine = self.vec(tid, t)
            vecs = list(recd.values()) + [mine]
            n = len(vecs)
            R = self.feasible_ranks(vecs)
            cont_ok = any(r * self.frf <= n for r in R)
            stop_ok = any(r * self.frf >= n for r in R)
            recd[tid] = mine
            det = dict(rung_level=float(h), n_recorded_incl_itself=n, admissible_ranks=sorted(R), reduction_factor=self.rf,
                       recorded_vectors_min_convention=vecs, **common)
            if n == 1:
                self.check(M_FIRST, got == CONTINUE, **det)
            elif cont_ok and not stop_ok:
                self.rec.cover["must_continue"] += 1
                self.check(M_CONT, got == CONTINUE, **det)
            elif stop_ok and not cont_ok:
                self.rec.cover["must_stop"] += 1
                self.check(M_STOP, got == STOP, **det)
            else:
                if any(r * self.frf == n for r in R) and len(R) == 1:
                    self.rec.cover["open_at_exact_fraction"] += 1
                else:
                    self.rec.cover["open_by_tie"] += 1
                self.check(M_CONT, got in (STOP, CONTINUE), **det)
                if len(R) > 1 and (self.spec["prio"] is None or self.spec["prio"]["kind"] == "nd"):
                    R2 = self.feasible_ranks(vecs, documented_order=True)
                    c2, s2 = any(r * self.frf <= n for r in R2), any(r * self.frf >= n for r in R2)
                    if c2 != s2:
                        det["admissible_ranks_with_documented_in_layer_order"] = sorted(R2)
                        self.check(M_EPS, got == (CONTINUE if c2 else STOP), fatal=False, **det)
            self.compare_records(b, M_REC, just=(tid, h), route="result")
        if self.twin is not None:
            self.rec.cover["twin_steps"] += 1
            self.check(T_TWIN, got == tgot, what="answer of on_trial_result", twin_answer=tgot, twin_metric_order=self.perm,
                       twin_reported=self.result_dict(tid, t, True), **common)
        return got

    def complete(self, tid, t):
        """deliver a result through on_trial_complete (no answer)"""
        b = self.bracket[tid]
        h = self.highest(b, t)
        tr = self.trial(tid)
        self.both("on_trial_complete", lambda: self.prim.on_trial_complete(tr, self.result_dict(tid, t, False)),
                  lambda: self.twin.on_trial_complete(self.trial(tid), self.result_dict(tid, t, True)))
        self.events.append([tid, t, "complete", None])
        common = dict(trial=tid, resource=t, bracket=b, reported=self.result_dict(tid, t, False))
        if h is not None and tid not in self.records[b][h]:
            if self.skipped(b, tid, h):
                self.rec.cover["skipped_level"] += 1
            self.records[b][h][tid] = self.vec(tid, t)
            self.rec.cover["complete_recorded"] += 1
            self.compare_records(b, M_REC, just=(tid, h), route="complete")
        elif h is not None and self.skipped(b, tid, h):
            impl = self.impl_rungs(b)
            changed = [float(lv) for lv in self.levels[b] if set(impl.get(float(lv), {}).keys()) != set(self.records[b][lv].keys())]
            self.check(BACKFILL, not changed, route="on_trial_complete", already_recorded_at=float(h),
                       skipped_levels=[float(x) for x in self.skipped(b, tid, h)], levels_whose_records_changed=changed, **common)
        else:
            self.compare_records(b, M_REC)
        self.forget(tid, "completed")

    def remove(self, tid, why):
        tr = self.trial(tid)
        self.both("on_trial_remove", lambda: self.prim.on_trial_remove(tr), lambda: self.twin.on_trial_remove(self.trial(tid)))
        self.events.append([tid, None, "remove", None])
        self.forget(tid, why)

    def forget(self, tid, why):
        b = self.bracket[tid]
        self.check(M_FORGET, tid not in self.prim._trial_info, trial=tid, after=why)
        self.compare_records(b, M_FORGET)

    # ---------------------------------------------------------------- plans
    def plan(self, tid):
        """list of (resource, route) with route in r (on_trial_result) | c (on_trial_complete with a fresh result) |
        rc (Tuner style: on_trial_result, then on_trial_complete with the same result) | x (on_trial_remove)"""
        rs, spec = self.rs, self.spec
        b = self.bracket[tid]
        lv = [l for l in sorted(self.levels[b]) if l < self.max_t]
        ceil = [int(math.ceil(l)) for l in lv]
        kind = spec["sched"]
        if kind == "mixed":
            kind = ["dense", "rungs", "skip", "late", "sparse"][int(rs.randint(0, 5))]
        if kind == "dense":
            times = list(range(int(rs.randint(1, max(2, (ceil[0] if ceil else 1) + 1))), self.max_t + 1))
        elif kind == "rungs":
            times = ceil + [self.max_t]
        elif kind == "skip":
            keep = [i for i in range(len(lv)) if rs.rand() < 0.6]
            times = []
            for i in keep:
                nxt = ceil[i + 1] if i + 1 < len(ceil) else self.max_t
                times.append(ceil[i] + int(rs.randint(0, max(1, nxt - ceil[i]))))
            times = sorted(set(times)) + [self.max_t + int(rs.randint(0, 2))]
        elif kind == "late":
            t0 = int(rs.randint(min(2, self.max_t), self.max_t + 2))
            times = list(range(t0, max(t0, self.max_t) + 1))
        elif kind == "sparse":
            m = int(rs.randint(2, 4))
            times = list(range(m, self.max_t + m, m))
        else:
            raise ValueError(kind)
        times = [t for t in times if t >= 1]
        ev = [(t, "r") for t in times]
        end = spec["end"]
        if end == "mixed":
            end = ["stop", "stop", "c", "rc", "x"][int(rs.randint(0, 5))]
        if end != "stop" and ev:
            cut = int(rs.randint(0, len(ev)))
            ev = ev[:cut] + [(ev[cut][0], end)]
        return ev

    # ---------------------------------------------------------------- main loop
    def run(self):
        spec = self.spec
        np.random.seed(spec["seed"] % (2 ** 31))
        self.prim, names, mode = self.call("MOASHA()", self.make_scheduler, None)
        if self.perm is not None:
            self.twin, _, _ = self.call("MOASHA() [twin]", self.make_scheduler, self.perm)
        want_mode = "min" if spec["mode"] is None else spec["mode"]
        got_names, got_mode = self.call("metric_names", self.prim.metric_names), self.call("metric_mode", self.prim.metric_mode)
        self.check(M_NAMES, list(got_names) == self.names and got_mode == want_mode and self.prim.is_multiobjective_scheduler() is True,
                   metric_names=got_names, metric_mode=got_mode, expected_mode=want_mode)
        for s in range(self.nb):
            impl = [float(m) for m, _ in self.prim._brackets[s]._rungs]
            want = [float(l) for l in self.levels[s]]
            self.check(M_LEVELS, [m for m in impl if m < self.max_t] == [m for m in want if m < self.max_t]
                       and all(m <= self.max_t for m in impl), fatal=False, bracket=s, rung_levels=impl, expected=want)
            # whether a rung at exactly max_t exists is not observable through decisions: follow the scheduler
            self.levels[s] = [l for l in self.levels[s] if l < self.max_t or float(l) in impl]
            self.records[s] = {lv: {} for lv in self.levels[s]}
        if "script" in spec:
            return self.run_script(spec["script"])
        n = spec["n_trials"]
        to_add = list(range(n))
        plans, alive = {}, []
        first = n if spec["order"] == "wave" else int(self.rs.randint(1, n + 1))
        steps = 0
        while (alive or to_add) and steps < 400:
            steps += 1
            if to_add and (len(plans) < first or not alive or self.rs.rand() < 0.15):
                tid = to_add.pop(0)
                self.add(tid)
                plans[tid] = self.plan(tid)
                if plans[tid]:
                    alive.append(tid)
                continue
            if spec["order"] == "wave":
                tid = min(alive, key=lambda i: (plans[i][0][0], i))
            elif spec["order"] == "burst" and self.events and self.events[-1][0] in alive and self.rs.rand() < 0.7:
                tid = self.events[-1][0]
            else:
                tid = alive[int(self.rs.randint(0, len(alive)))]
            t, route = plans[tid].pop(0)
            ended = route != "r"
            deliver = self.backfill_family or not self.no_new_rung_after_skip(tid, t, route == "c")
            if not deliver:
                # this family never delivers a report that reaches no new rung after a skipped level
                if ended:
                    self.remove(tid, "removed")
            elif route == "r":
                if self.report(tid, t) == STOP:
                    self.remove(tid, "stopped")
                    ended = True
            elif route == "c":
                self.complete(tid, t)
            elif route == "rc":
                if self.report(tid, t) == STOP:
                    self.remove(tid, "stopped")
                elif self.backfill_family or not self.no_new_rung_after_skip(tid, t, True):
                    self.complete(tid, t)
                else:
                    self.remove(tid, "removed")
            else:
                self.remove(tid, "removed")
            if ended or not plans[tid]:
                alive.remove(tid)
        for s in range(self.nb):
            self.compare_records(s, M_REC)

    def run_script(self, script):
        """script: list of (trial, resource, route); trials are added on first use"""
        for tid, t, route in script:
            if tid not in self.bracket:
                self.add(tid)
            if route == "r":
                if self.report(tid, t) == STOP:
                    self.remove(tid, "stopped")
            elif route == "c":
                self.complete(tid, t)
            elif route == "rc":
                if self.report(tid, t) == STOP:
                    self.remove(tid, "stopped")
                else:
                    self.complete(tid, t)
        for s in range(self.nb):
            self.compare_records(s, M_REC)


# --------------------------------------------------------------------------------------------------------------
# catalogue
# --------------------------------------------------------------------------------------------------------------
CONFIGS = [  # (max_t, grace, rf, brackets)
    (8, 1, 2, 1), (16, 1, 2, 1), (16, 1, 2, 2), (16, 1, 2, 3), (9, 1, 3, 1), (27, 1, 3, 2), (27, 1, 3, 3), (10, 1, 3, 2),
    (16, 2, 2, 1), (16, 2, 2, 3), (20, 2, 3, 1), (16, 1, 4, 2), (12, 3, 2, 1), (10, 1, 1.5, 1), (10, 1, 1.5, 2),
    (20, 1, 2.5, 1), (20, 1, 2.5, 2), (12, 2, 1.5, 1), (3, 1, 3, 3), (4, 4, 2, 1), (7, 1, 2, 1), (13, 2, 2.5, 3),
]
MODES = {
    1: [None, "min", "max", ["max"], ["min"]],
    2: [None, "min", "max", ["min", "min"], ["min", "max"], ["max", "min"], ["max", "max"]],
    3: ["min", "max", ["min", "max", "min"], ["max", "max", "min"], ["max", "min", "max"], ["min", "min", "max"]],
    4: ["max", ["min", "max", "max", "min"]],
    5: [None, ["max", "min", "max", "min", "max"]],
}
TABLES = ["chain", "grid4", "dyadic", "general", "grid2", "dup", "front", "const"]
SCHEDS = ["dense", "rungs", "skip", "late", "mixed", "sparse"]
ORDERS = ["random", "wave", "burst"]
ENDS = ["stop", "mixed", "mixed"]


def prios_for(d):
    out = [None, {"kind": "nd", "dim": 0, "k": None, "named": True}, {"kind": "nd", "dim": d - 1, "k": None},
           {"kind": "nd", "dim": 0, "k": 2}, {"kind": "nd", "dim": d - 1, "k": 4, "named": True}, {"kind": "nd", "dim": 0, "k": 1},
           {"kind": "fixed", "dim": 0}, {"kind": "fixed", "dim": d - 1, "named": True}, {"kind": "linear", "w": None},
           {"kind": "linear", "w": [float(2 ** j) for j in range(d)]}, {"kind": "nd", "dim": None, "k": None},
           {"kind": "nd", "dim": 0, "k": 7}]
    return out


def perm_for(d, i):
    perms = list(itertools.permutations(range(d)))
    return list(perms[i % len(perms)])


def build_catalogue(tier, seed):
    thorough = tier != "quick"
    cat = []
    rs = np.random.RandomState(31 * seed + 5)

    def s31():
        return int(rs.randint(0, 2 ** 30))

    # ---- enumerated: every arrival order of n chain points at one rung, every reduction factor ------------------
    idx = 0
    for rf in (2, 3, 1.5, 2.5, 4):
        for n in ((3, 4, 5) if thorough else (3, 4)):
            for order in itertools.permutations(range(n)):
                idx += 1
                d = 1 + idx % 3
                mode = MODES[d][idx % len(MODES[d])]
                vectors = [[[float((q + 1) * (j + 1)) for j in range(d)]] * 8 for q in order]
                pr = [None, {"kind": "nd", "dim": d - 1, "k": None}, {"kind": "fixed", "dim": 0}, {"kind": "linear", "w": None},
                      {"kind": "nd", "dim": 0, "k": n}][idx % 5]
                cat.append(dict(family="enum-orders", d=d, mode=mode, prio=pr, max_t=5, grace=1, rf=rf, brackets=1,
                                n_trials=n, vectors=vectors, seed=idx, twin=perm_for(d, idx),
                                script=[(i, 1, "r") for i in range(n)]))
    # ---- enumerated: every 3-tuple (quick) / + sampled 4-tuples of 2-d grid points at one rung -------------------
    pts = list(itertools.product(range(2), repeat=2))
    tuples = list(itertools.product(pts, repeat=3))
    four = list(itertools.product(pts, repeat=4))
    pick = rs.permutation(len(four))[: (256 if thorough else 48)]
    tuples += [four[i] for i in pick]
    for idx, tup in enumerate(tuples):
        rf = (2, 1.5, 3, 2.5)[idx % 4]
        mode = MODES[2][idx % len(MODES[2])]
        pr = [None, {"kind": "nd", "dim": 1, "k": None}, {"kind": "nd", "dim": 0, "k": 2}, {"kind": "fixed", "dim": 1}][(idx // 4) % 4]
        cat.append(dict(family="enum-grid", d=2, mode=mode, prio=pr, max_t=5, grace=1, rf=rf, brackets=1, n_trials=len(tup),
                        vectors=[[[float(p[0]), float(p[1])]] * 8 for p in tup], seed=idx, twin=perm_for(2, idx),
                        script=[(i, 1, "r") for i in range(len(tup))]))
    # ---- enumerated: results arriving through on_trial_complete, every mode list x which trials complete ---------
    idx = 0
    for mode in MODES[2] + MODES[1] + MODES[3]:
        d = 2 if mode in MODES[2] else (1 if mode in MODES[1] else 3)
        for comp in itertools.product("rc", repeat=3):
            for order in ((0, 1, 2), (2, 1, 0), (1, 2, 0)):
                idx += 1
                vectors = [[[float((q + 1) * (j + 1)) for j in range(d)]] * 12 for q in order]
                script = [(i, 2, comp[i]) for i in range(3)] + [(3, 2 + idx % 2, "r"), (4, 2, "r")]
                vectors += [[[1.5 * (j + 1) for j in range(d)]] * 12, [[2.5 * (j + 1) for j in range(d)]] * 12]
                cat.append(dict(family="enum-complete", d=d, mode=mode, prio=None if idx % 2 else {"kind": "fixed", "dim": d - 1},
                                max_t=9, grace=2, rf=(2, 1.5, 3)[idx % 3], brackets=1, n_trials=5, vectors=vectors, seed=idx,
                                twin=perm_for(d, idx), script=script))
    # ---- directed: trials that skip rung levels / first report late (judged at the rung actually reached) --------
    idx = 0
    for rf, max_t, lv in ((2, 16, [1, 2, 4, 8]), (3, 27, [1, 3, 9]), (2, 9, [1, 2, 4, 8])):
        for first in lv[1:]:
            for worse in (True, False):
                for nres in (2, 3):
                    idx += 1
                    d = 2
                    vals = [1.0, 2.0, 3.0][:nres] + [10.0 if worse else 0.5] + [5.0, 20.0]
                    vectors = [[[v * (j + 1) for j in range(d)]] * (max_t + 3) for v in vals]
                    script = [(i, 1, "r") for i in range(nres)] + [(nres, first, "r")]
                    script += [(0, first, "r"), (nres + 1, first, "r"), (nres + 2, first, "r")]
                    cat.append(dict(family="directed-skip", d=d, mode=MODES[2][idx % 7], prio=None, max_t=max_t, grace=1, rf=rf,
                                    brackets=1, n_trials=len(vals), vectors=vectors, seed=idx, twin=perm_for(d, idx), script=script))
    # ---- random interleavings ---------------------------------------------------------------------------------
    count = 1500 if thorough else 330
    for i in range(count):
        max_t, grace, rf, nb = CONFIGS[i % len(CONFIGS)]
        d = (2, 2, 3, 1, 2, 3, 2, 4, 2, 5)[(i // 3) % 10]
        mode = MODES[d][(i // 2) % len(MODES[d])]
        prs = prios_for(d)
        pr = prs[(i // 5) % len(prs)]
        table = TABLES[(i // 7) % len(TABLES)]
        if table == "front" and d < 2:
            table = "grid4"
        twin = perm_for(d, i) if table in EXACT_TABLES else list(range(d))
        if pr is not None and pr["kind"] == "nd" and pr["dim"] is None and (d > 3):
            pr = prs[1]
        cat.append(dict(family="random", d=d, mode=mode, omit_mode=(i % 4 == 0), prio=pr, max_t=max_t, grace=grace, rf=rf, brackets=nb,
                        n_trials=int(rs.randint(3, 11)), table=table, sched=SCHEDS[(i // 11) % len(SCHEDS)],
                        order=ORDERS[(i // 13) % 3], end=ENDS[(i // 17) % 3], seed=s31(), twin=twin))
    # ---- family with a clause of its own: reports that reach no new rung after a skipped level -------------------
    count = 120 if thorough else 30
    for i in range(count):
        max_t, grace, rf, nb = [(16, 1, 2, 1), (27, 1, 3, 1), (16, 1, 2, 2), (20, 1, 2.5, 1)][i % 4]
        cat.append(dict(family="backfill", d=2, mode=MODES[2][i % 7], prio=None, max_t=max_t, grace=grace, rf=rf, brackets=nb,
                        n_trials=int(rs.randint(4, 9)), table=TABLES[i % 3], sched=("late", "sparse", "mixed")[i % 3],
                        order="random", end=("stop", "mixed")[i % 2], seed=s31(), twin=None))
    return cat


def monitor_moasha(tier="quick", seed=0):
    from syne_tune.backend.trial_status import Trial
    from syne_tune.config_space import randint
    from syne_tune.optimizer.schedulers.multiobjective.moasha import MOASHA
    from syne_tune.optimizer.schedulers.multiobjective.multiobjective_priority import (
        FixedObjectivePriority, LinearScalarizationPriority, NonDominatedPriority)
    from syne_tune.optimizer.schedulers.multiobjective.non_dominated_priority import nondominated_sort, pareto_efficient

    lib = dict(Trial=Trial, randint=randint, MOASHA=MOASHA, FixedObjectivePriority=FixedObjectivePriority,
               LinearScalarizationPriority=LinearScalarizationPriority, NonDominatedPriority=NonDominatedPriority,
               nondominated_sort=nondominated_sort, pareto_efficient=pareto_efficient)
    rec = Recorder()
    cat = build_catalogue(tier, seed)
    fam = {}
    prev_disable = logging.root.manager.disable
    logging.disable(logging.CRITICAL)
    np_state = np.random.get_state()
    try:
        with contextlib.redirect_stdout(io.StringIO()):
            nsets, samples = direct_checks(rec, lib, tier, seed)
            for spec in cat:
                fam[spec["family"]] = fam.get(spec["family"], 0) + 1
                try:
                    Sim(spec, rec, lib).run()
                except _Abort:
                    pass
                except Exception as e:  # a library call raised: already filed under C_EXC by Sim.call
                    if not rec.viol[C_EXC]:
                        raise
    finally:
        logging.disable(prev_disable)
        np.random.set_state(np_state)
    violations = [v for c in CLAUSES for v in rec.viol[c]]
    # an empty check must not look green (only a run cut short by violations of the ordinary clauses may skip some)
    cut_short = any(v["clause"] not in KNOWN_OPEN for v in violations)
    empty = [c for c in CLAUSES if rec.count[c] == 0]
    if empty and not cut_short:
        raise RuntimeError("clauses never exercised: %s" % empty)
    for k, v in rec.cover.items():
        if v == 0 and not cut_short:
            raise RuntimeError("coverage counter %r is zero (vacuous run)" % k)
    for f in ("enum-orders", "enum-complete", "random"):
        s = next((x for x in cat if x["family"] == f), None)
        if s is not None:
            samples.append({k: v for k, v in s.items() if k != "vectors"})
    summary = ("tier=%s seed=%d: %d point sets (hand-made, all sets of <=4 points on grids {0,1,2}^1 / <=%s on {0,1}^2, {0,1,2}^2, "
               "{0,1}^3, random n<=%d in dimension 1..5 with ties, duplicates, chains, general position) x every preferred "
               "dimension incl. None x max_items None/1..n+2; %d MOASHA scenarios %s on the real scheduler: max_t<=27, grace 1..4, "
               "rf in {1.5,2,2.5,3,4}, brackets 1..3 (incl. empty brackets), 1..5 metrics, every min/max list for <=3 metrics, "
               "mode None/str/list, priorities default / NonDominated(dim, max_num_samples) / FixedObjective / "
               "LinearScalarization, <=10 concurrent trials, <=400 events (all arrival orders of 3-%d chain points and all "
               "3-tuples of {0,1}^2 at one rung; random/wave/burst interleavings of dense / rung-only / level-skipping / "
               "late-first / sparse reporters ending by STOP, on_trial_complete (fresh or Tuner style) or on_trial_remove); "
               "every scenario but the backfill family twinned with flipped modes on negated values and permuted metric "
               "order; rank fraction exactly 1/rf and tied priorities left open; coverage: %s; clause checks: %s"
               % (tier, seed, nsets, "4" if tier != "quick" else "3", 12 if tier != "quick" else 9, len(cat), fam,
                  5 if tier != "quick" else 4, rec.cover, {c: rec.count[c] for c in CLAUSES}))
    # The four KNOWN_OPEN clauses go beyond the statement of C19 / C15 (doc-string level order inside a Pareto layer; reports
    # that reach no rung after a skipped level, on which the statement is silent).  Demanding them would be demanding more
    # than the property states, so they are evaluated and counted in the summary but are NOT part of the verdict.
    beyond = {c: len(rec.viol[c]) for c in CLAUSES if c in KNOWN_OPEN}
    verdict_clauses = [c for c in CLAUSES if c not in KNOWN_OPEN]
    verdict_violations = [v for v in violations if v["clause"] not in KNOWN_OPEN]
    summary += "; informational (beyond the property statement, not part of the verdict): %s" % beyond
    return {"evaluations": rec.total, "distinct": nsets + len(cat), "clauses": verdict_clauses, "violations": verdict_violations,
            "samples": samples[:4], "summary": summary}


if __name__ == "__main__":
    import json
    import time

    t0 = time.time()
    out = monitor_moasha(sys.argv[1] if len(sys.argv) > 1 else "quick", int(sys.argv[2]) if len(sys.argv) > 2 else 0)
    print(json.dumps(out["violations"], indent=1, default=str)[:8000])
    print(out["summary"])
    print("evaluations", out["evaluations"], "distinct", out["distinct"], "violations", len(out["violations"]),
          "by clause", {c: sum(1 for v in out["violations"] if v["clause"] == c) for c in CLAUSES if any(v["clause"] == c for v in out["violations"])},
          "time %.1fs" % (time.time() - t0))
