"""C18 -- metrics reported by a training script arrive unchanged at the tuner."""
from pyvc.spec import *
import os

LEVEL = "exploration"
REP = "syne_tune.report"

EXPLANATION = (
    "Reporter side (pyvc, all values): every successful report hands exactly one dictionary to the serialiser that "
    "contains the user's values unchanged, a report counter equal to the number of earlier reports (written before it "
    "is incremented) and time stamps; a None value or a key in the reserved 'st_' namespace is rejected before anything "
    "is written; an oversized serialisation is rejected.  Text channel (native monitor, bounded): reports with hostile "
    "keys / values interleaved with other output are parsed back exactly, in order."
)
ASSUMPTIONS = [
    "json.dumps / json.loads are inverse up to tuple->list and numpy scalar->number (trusted)",
    "sys.getsizeof is a deterministic function of the string",
    "native monitor: finite catalogue of hostile fragments (braces, brackets, quotes, newlines in strings, the metric tag itself, unicode, NaN/inf, numpy scalars), <= 3 reports x <= 2 noise chunks",
]

def _oversized_only():
    """the only other rejection: the serialised text exceeds the size limit, and then no tagged line is printed"""
    outs = outputs()
    return {
        "rejected-only-when-oversized": len(outs) >= 1 and outs[0][0] == "json.dumps" and size_of_text(outs[0][2]) >= 50000,
        "no-line-printed-for-a-rejected-report": all(o[0] != "print" for o in outs),
    }


declare_class("Reporter", REP + ":Reporter", dict(add_time=Bool, add_cost=Bool, start=Real, iter=Int))


@contract(REP + ":Reporter.__call__", props=("C18",), has_lists=False)
class Reporter_call:
    params = dict(self=Obj("Reporter"), loss=Real, epoch=Int)

    raises = {"AssertionError": "oversized"}

    def requires(s):
        return {"counter": s.self.iter >= 0}

    def oversized(old, s):
        return _oversized_only()

    def ensures(old, s, result):
        outs = [o for o in outputs() if o[0] == "json.dumps"]
        if len(outs) != 1:
            return {"exactly-one-report-written": False}
        d = outs[0][1]
        return {
            "exactly-one-report-written": True,
            "user-values-unchanged": d["loss"] == old.loss and d["epoch"] == old.epoch,
            "counter-written-before-increment": d["st_worker_iter"] == old.self.iter,
            "counter-strictly-increasing": s.self.iter == old.self.iter + 1,
            "time-stamp-added": "st_worker_timestamp" in d,
        }


@contract(REP + ":Reporter.__call__", props=("C18",), has_lists=False)
class Reporter_call_reserved_key:
    label = "Reporter.__call__(reserved key)"
    params = dict(self=Obj("Reporter"), loss=Real, st_worker_iter=Int)
    raises = {"AssertionError": "nothing_written"}
    expect_no_normal_exit = True

    def requires(s):
        return True

    def nothing_written(old, s):
        return {"rejected-before-anything-is-written": len(outputs()) == 0, "counter-unchanged": s.self.iter == old.self.iter}

    def ensures(old, s, result):
        return {"reserved-namespace-rejected": False}


@contract(REP + ":Reporter.__call__", props=("C18",), has_lists=False)
class Reporter_call_none_value:
    label = "Reporter.__call__(None value)"
    params = dict(self=Obj("Reporter"), loss=Opt(Real), epoch=Int)
    raises = {"AssertionError": "nothing_written"}

    def requires(s):
        return True

    def nothing_written(old, s):
        if old.loss is None:
            return {"rejected-before-anything-is-written": len(outputs()) == 0}
        return _oversized_only()

    def ensures(old, s, result):
        return {"only-complete-reports-pass": old.loss is not None}


@contract(REP + ":_serialize_report_dict", props=("C18",), has_lists=False)
class SerializeReportDict:
    params = dict(report_dict=Rec(loss=Real, epoch=Int))
    raises = {"AssertionError": "too_large"}

    def requires(s):
        return True

    def too_large(old, s):
        outs = outputs()
        return {"oversized": len(outs) == 1 and size_of_text(outs[0][2]) >= 50000}

    def ensures(old, s, result):
        return {"returned-text-is-the-serialisation": len(outputs()) == 1 and req(result, outputs()[0][2]), "size-limit": size_of_text(result) < 50000}


# -- text channel: native monitor ------------------------------------------------------------------------------------------


def monitor_stream(tier="quick", seed=0):
    import io
    import itertools
    import json as _json
    import contextlib
    import numpy as np
    from syne_tune.report import Reporter, retrieve
    from syne_tune.constants import ST_SAGEMAKER_METRIC_TAG

    tag = "[%s]: " % ST_SAGEMAKER_METRIC_TAG
    values = [
        1,
        0.5,
        "plain",
        "with } brace",
        "with { brace",
        "]}[{",
        'quote " inside',
        "new\nline",
        tag + '{"fake": 1}',
        "unicode   sep é",
        [1, 2, {"a": "}"}],
        {"nested": {"deep": [1, "}"]}},
        {},
        [],
        (1, 2),
        np.float32(0.25),
        np.int64(7),
        np.int64(2**53 + 1),
        np.uint8(200),
        np.bool_(True),
        [np.int32(3), {"k": np.int64(-(2**62))}],
        float("nan"),
        float("inf"),
        True,
    ]
    noise = ["", "some log line", "{not json}", "[tune] something { }", "a\nb"]
    viol = []
    n = 0
    reports_sets = [[{"v": v}] for v in values] + [[{"a": a, "b": b}] for a, b in itertools.islice(itertools.combinations(values, 2), 60)] + [[{"x": values[i]}, {"y": values[(i * 7 + 3) % len(values)]}, {"z": i}] for i in range(len(values))]

    def norm(x):
        if isinstance(x, dict):
            return {str(k): norm(v) for k, v in x.items()}
        if isinstance(x, (list, tuple)):
            return [norm(v) for v in x]
        if isinstance(x, np.generic):
            return norm(x.item())
        if isinstance(x, float) and x != x:
            return "NaN"
        return x

    for reps in reports_sets:
        for nz, trailing in itertools.product(noise[: 3 if tier == "quick" else 5], (True, False)):
            n += 1
            buf = io.StringIO()
            rep = Reporter(add_time=(n % 3 != 0), add_cost=False)
            with contextlib.redirect_stdout(buf):
                for r in reps:
                    if nz:
                        print(nz)
                    rep(**r)
                if nz:
                    print(nz, end="" if not trailing else "\n")
            text = buf.getvalue()
            if not trailing and text.endswith("\n"):
                text = text[:-1]
            try:
                got = retrieve(text.split("\n"))
            except Exception as e:
                viol.append({"clause": "parses-what-the-reporter-wrote", "reports": repr(reps)[:200], "noise": nz, "raised": repr(e)[:200]})
                continue
            want = [norm(r) for r in reps]
            user = [{k: norm(v) for k, v in g.items() if not k.startswith("st_")} for g in got]
            # plain numbers keep their kind: 7 must not arrive as 7.0, True not as 1.0 (json text distinguishes them)
            if user != want or _json.dumps(user, sort_keys=True) != _json.dumps(want, sort_keys=True):
                viol.append({"clause": "dictionaries-unchanged-in-order", "reports": repr(reps)[:200], "noise": nz, "parsed": repr(user)[:200]})
                continue
            iters = [g.get("st_worker_iter") for g in got]
            stamps = [g.get("st_worker_timestamp") for g in got]
            if iters != list(range(len(reps))) or any(a > b for a, b in zip(stamps, stamps[1:])):
                viol.append({"clause": "counter-increasing-and-time-monotone", "reports": repr(reps)[:200], "iters": iters})
    # oversized / unserialisable reports are rejected at the reporting side
    for bad in ({"blob": "y" * 200000}, {"curve": [0.125] * 30000}, {"obj": object()}, {"st_mine": 1}, {"none": None}):
        n += 1
        buf = io.StringIO()
        rejected = False
        with contextlib.redirect_stdout(buf):
            try:
                Reporter(add_time=False)(**bad)
            except (AssertionError, TypeError):
                rejected = True
        if not rejected or tag in buf.getvalue():
            viol.append({"clause": "bad-reports-rejected-without-corrupting-the-stream", "report_keys": list(bad), "rejected": rejected, "tag_written": tag in buf.getvalue()})
    return {"evaluations": n, "distinct": len(reports_sets), "clauses": ["parses-what-the-reporter-wrote", "dictionaries-unchanged-in-order", "counter-increasing-and-time-monotone", "bad-reports-rejected-without-corrupting-the-stream"], "violations": viol, "samples": [{"reports": repr(reports_sets[i])[:120]} for i in (3, 25, 90)], "summary": "%d report sets x noise x trailing newline" % len(reports_sets)}


from pyvc.native import native_monitor  # noqa: E402

EXTRA_CHECKS = [native_monitor("C18", "contracts.c18", "monitor_stream", "text-channel", "100 report sets built from 24 hostile values, 3 (5) noise chunks, with / without trailing newline")]


from pyvc.native import native_monitor  # noqa: E402

EXTRA_CHECKS = (list(EXTRA_CHECKS) if 'EXTRA_CHECKS' in globals() else []) + [native_monitor("C18", "contracts.c18_native", "monitor_backend_stream", "backend-stream", "12 (24) real LocalBackend subprocess trials with block-buffered stdout and 744 (4059) in-process scenarios through LocalBackend's own parsing: reports interleaved with output without trailing newline, direct writes to fd 1, child processes, 8-45 KB reports, os._exit and kill, hostile values; polls at quiescent points")]
