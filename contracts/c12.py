"""C12 -- tuning terminates on the stopping criterion and leaves nothing running."""
from pyvc.spec import *
from contracts.iface import *

LEVEL = "exploration"
TUNER = "syne_tune.tuner"
STOPC = "syne_tune.stopping_criterion"
TSTAT = "syne_tune.tuning_status"

EXPLANATION = (
    "StoppingCriterion.__call__ is proved (all values) to be the disjunction of its threshold comparisons. "
    "Tuner.run is executed symbolically against abstract scheduler / back end / callbacks / criterion with ghost "
    "protocol state for up to K loop iterations (the abstract criterion answers True at the K-th evaluation): no trial "
    "is started or resumed once the criterion held, the worker budget is respected, every exit (normal or by "
    "exception) runs on_tuning_end -> stop_all -> mark_running_job_as_stopped, and exceeding max_failures raises. "
    "TuningStatus counters are checked on bounded status tables."
)
ASSUMPTIONS = [
    "interface contracts of contracts/iface.py (abstract collaborators); callbacks and print_best_metric_found do not raise inside finally",
    "Tuner.run: bounded to <= 4 loop iterations (free environment: 2; directed pause-and-resume script: 4), n_workers = 1, at most one result per trial and poll",
    "A-REAL for thresholds",
]

# ------------------------------------------------------------------------------------------------------
# StoppingCriterion.__call__ (unbounded: scalars only)
# ------------------------------------------------------------------------------------------------------

declare_class("StatsView", TSTAT + ":MetricsStatistics", dict(count=Int, max_metrics=Rec(st_tuner_time=Real), min_metrics=Rec(loss=Real)), builder="ns")
declare_class(
    "StatusView",
    TSTAT + ":TuningStatus",
    dict(wallclock_time=Real, num_trials_started=Int, num_trials_completed=Int, num_trials_finished=Int, cost=Real, overall_metric_statistics=Obj("StatsView")),
    builder="ns",
)
declare_class(
    "StoppingCriterion",
    STOPC + ":StoppingCriterion",
    dict(
        max_wallclock_time=Opt(Real),
        max_num_evaluations=Opt(Int),
        max_num_trials_started=Opt(Int),
        max_num_trials_completed=Opt(Int),
        max_cost=Opt(Real),
        max_num_trials_finished=Opt(Int),
        min_metric_value=Opt(Rec(loss=Real)),
        max_metric_value=Opt(Rec(st_tuner_time=Real)),
    ),
)


def exceeds(limit, value):
    return limit is not None and value > limit


@contract(STOPC + ":StoppingCriterion.__call__", props=("C12",), has_lists=False)
class StoppingCriterion_call:
    params = dict(self=Obj("StoppingCriterion"), status=Obj("StatusView"))

    def requires(s):
        return {"count": s.status.overall_metric_statistics.count >= 0}

    def ensures(old, s, result):
        c = old.self
        st = old.status
        ov = st.overall_metric_statistics
        spec = (
            exceeds(c.max_wallclock_time, st.wallclock_time)
            or exceeds(c.max_num_trials_started, st.num_trials_started)
            or exceeds(c.max_num_trials_completed, st.num_trials_completed)
            or exceeds(c.max_num_trials_finished, st.num_trials_finished)
            or exceeds(c.max_cost, st.cost)
            or exceeds(c.max_num_evaluations, ov.count)
            or (c.max_metric_value is not None and ov.count > 0 and ov.max_metrics["st_tuner_time"] > c.max_metric_value["st_tuner_time"])
            or (c.min_metric_value is not None and ov.count > 0 and ov.min_metrics["loss"] < c.min_metric_value["loss"])
        )
        return {"criterion-is-the-disjunction-of-its-thresholds": result == spec, "frame": unchanged(s.self, old.self)}


# ------------------------------------------------------------------------------------------------------
# Tuner.run (bounded number of loop iterations)
# ------------------------------------------------------------------------------------------------------

declare_class(
    "TunerRun",
    TUNER + ":Tuner",
    dict(
        scheduler=Abstract("RunScheduler"),
        trial_backend=Abstract("RunBackend"),
        callbacks=List(Abstract("TunerCallback"), concrete_len=1),
        tuning_status=Abstract("TuningStatus"),
        stop_criterion=Abstract("StoppingCriterion"),
        tuner_path=Abstract("Path"),
        last_seen_result_per_trial=Lit({}),
        trials_scheduler_stopped=Lit(set()),
        n_workers=Lit(1),
        max_failures=Int,
        asynchronous_scheduling=Lit(True),
        start_jobs_without_delay=Lit(True),
        wait_trial_completion_when_stopping=Bool,
        save_tuner=Lit(False),
        sleep_time=Lit(0),
        print_update_interval=Lit(30),
        results_update_interval=Lit(10),
        metadata=Lit({}),
    ),
)


def log_index(log, name):
    """position of the LAST call ``name`` in the log (-1 if absent)"""
    pos = -1
    for i in range(len(log)):
        if log[i][0] == name:
            pos = i
    return pos


def cleanup_spec(log):
    e = log_index(log, "TunerCallback.on_tuning_end")
    a = log_index(log, "RunBackend.stop_all")
    m = log_index(log, "TuningStatus.mark_running_job_as_stopped")
    return {"results-stored-at-end": e >= 0, "nothing-left-running": a > e, "status-marked-after-stop_all": m > a}


@contract(TUNER + ":Tuner.run", props=("C12", "C01", "C13", "C02"))
class Tuner_run:
    params = dict(self=Obj("TunerRun"))
    ghost = RUN_GHOST
    unbounded = False
    has_lists = False
    shapes = [{"ghost.K": 1, "ghost.script": 0}, {"ghost.K": 3, "ghost.script": 0}, {"ghost.K": 4, "ghost.script": 1}, {"ghost.K": 5, "ghost.script": 1}]
    shapes_thorough = shapes + [{"ghost.K": 4, "ghost.script": 0}]
    modular_callees = ()
    raises = {"ValueError": "error_exit"}

    def requires(s):
        return {
            "fresh-world": forall(range(0, 4), lambda t: s.G.sched[t] == 0 and s.G.phase[t] == 0 and s.G.ckpt[t] == 0),
            "budget-ghost": s.G.nw == 1,
            "max_failures": s.self.max_failures >= 0,
        }

    def error_exit(old, s):
        out = cleanup_spec(s.G.log)
        # the only sanctioned errors: more failures than allowed, or a trial that completed without any result
        out["error-only-beyond-failure-limit"] = num_failed(s.G) > old.self.max_failures or completed_without_result(s.G.log)
        return out

    def ensures(old, s, result):
        out = cleanup_spec(s.G.log)
        # the run ends because the criterion held, or the search space is used up -- never silently on failures
        out["ends-only-on-criterion-or-exhaustion"] = s.G.stop == 1 or suggested_nothing(s.G.log)
        out["exceeding-the-failure-limit-is-an-error"] = num_failed(s.G) <= old.self.max_failures
        return out


def num_failed(G):
    n = 0
    for t in range(G.started):
        n = n + ite(G.last[t] == "Failed", 1, 0)
    return n


def suggested_nothing(log):
    return exists(range(0, len(log)), lambda i: log[i][0] == "RunScheduler.suggest" and log[i][2] is None)


def completed_without_result(log):
    """some polled trial was reported Completed (the tuner raises if it never saw a result of it)"""
    found = False
    for e in log:
        if e[0] == "RunBackend.fetch_status_results":
            for v in e[2][0].values():
                found = found or v[1] == "Completed"
    return found


@contract(TUNER + ":Tuner._save_metadata", props=())
class Tuner_save_metadata:
    """file output only: assumed to have no effect on the state of the tuning loop"""

    params = dict(self=Obj("TunerRun"))
    modular = True
    always_modular = True


@contract(TSTAT + ":print_best_metric_found", props=())
class Print_best_assumed:
    """console output; its value is C17's business -- here: assumed not to raise and to change nothing"""

    params = dict(tuning_status=Abstract("TuningStatus"), metric_names=List(Str), mode=Opt(Str))
    modular = True
    always_modular = True


# ------------------------------------------------------------------------------------------------------
# SimulatorCallback._modify_stop_criterion: the wall-clock limit becomes a limit on simulated time,
# every other field of the criterion is kept
# ------------------------------------------------------------------------------------------------------

SIM_CB = "syne_tune.backend.simulator_backend.simulator_callback"

declare_class(
    "StoppingCriterionUser",
    STOPC + ":StoppingCriterion",
    dict(
        max_wallclock_time=Opt(Real),
        max_num_evaluations=Opt(Int),
        max_num_trials_started=Opt(Int),
        max_num_trials_completed=Opt(Int),
        max_cost=Opt(Real),
        max_num_trials_finished=Opt(Int),
        min_metric_value=Opt(Rec(loss=Real)),
        max_metric_value=Opt(Rec(loss=Real)),
    ),
)
declare_class("TunerSC", TUNER + ":Tuner", dict(stop_criterion=Obj("StoppingCriterionUser")))
declare_class("SimulatorCallback", SIM_CB + ":SimulatorCallback", dict(_backup_stop_criterion=Opt(Obj("StoppingCriterionUser"))))


@contract(SIM_CB + ":SimulatorCallback._modify_stop_criterion", props=("C12", "C10"), has_lists=False)
class SimCallback_modify_stop_criterion:
    params = dict(self=Obj("SimulatorCallback"), tuner=Obj("TunerSC"))

    def requires(s):
        return True

    def ensures(old, s, result):
        c0 = old.tuner.stop_criterion
        c1 = s.tuner.stop_criterion
        if c0.max_wallclock_time is None:
            return {"unchanged-without-wallclock-limit": unchanged(c1, c0)}
        return {
            "simulated-time-limit": c1.max_metric_value is not None and c1.max_metric_value["st_tuner_time"] == c0.max_wallclock_time and c1.max_wallclock_time is None,
            "started-kept": c1.max_num_trials_started == c0.max_num_trials_started,
            "completed-kept": c1.max_num_trials_completed == c0.max_num_trials_completed,
            "finished-kept": c1.max_num_trials_finished == c0.max_num_trials_finished,
            "cost-kept": c1.max_cost == c0.max_cost,
            "evaluations-kept": c1.max_num_evaluations == c0.max_num_evaluations,
            # thresholds on metrics given by the user stay in force (they were dropped before fix 7c13350 in /repo)
            "user-lower-thresholds-kept": (c1.min_metric_value is None) if c0.min_metric_value is None else (c1.min_metric_value is not None and c1.min_metric_value["loss"] == c0.min_metric_value["loss"]),
            "user-upper-thresholds-kept": True if c0.max_metric_value is None else ("loss" in c1.max_metric_value and c1.max_metric_value["loss"] == c0.max_metric_value["loss"]),
            "backup": unchanged(s.self._backup_stop_criterion, c0),
        }


# ------------------------------------------------------------------------------------------------------
# TuningStatus: the counters equal the numbers of trials in each state (bounded status tables)
# ------------------------------------------------------------------------------------------------------

declare_class(
    "TuningStatusTbl",
    TSTAT + ":TuningStatus",
    dict(last_trial_status_seen=ADict(Int, STATUS_T), trial_rows=ADict(Int, Rec(status=STATUS_T))),
)


def n_with(tbl, pred):
    vals = list(tbl.values())
    return count(range(0, len(vals)), lambda i: pred(vals[i]))


@contract(TSTAT + ":TuningStatus.mark_running_job_as_stopped", props=("C12",))
class TS_mark_running_job_as_stopped:
    params = dict(self=Obj("TuningStatusTbl"))
    unbounded = False
    shapes = [{"self.last_trial_status_seen": n, "self.trial_rows": n} for n in range(0, 4)]

    def requires(s):
        ks = list(s.self.last_trial_status_seen.keys())
        rs = list(s.self.trial_rows.keys())
        return {"rows-match": forall(range(0, len(ks)), lambda i: ks[i] == rs[i] and s.self.trial_rows[rs[i]]["status"] == s.self.last_trial_status_seen[ks[i]])}

    def ensures(old, s, result):
        t0 = old.self.last_trial_status_seen
        t1 = s.self.last_trial_status_seen
        return {
            "nothing-in-progress": n_with(t1, lambda v: v == "InProgress") == 0 and n_with(s.self.trial_rows, lambda r: r["status"] == "InProgress") == 0,
            "same-trials": len(t1) == len(t0) and forall(range(0, len(list(t0.keys()))), lambda i: list(t0.keys())[i] in t1),
            "others-unchanged": forall(range(0, len(list(t0.keys()))), lambda i: t1[list(t0.keys())[i]] == (t0[list(t0.keys())[i]] if t0[list(t0.keys())[i]] != "InProgress" else "Stopped")),
            "counters-equal-cardinalities": s.self.num_trials_started == len(t0)
            and s.self.num_trials_completed == n_with(t0, lambda v: v == "Completed")
            and s.self.num_trials_failed == n_with(t0, lambda v: v == "Failed")
            and s.self.num_trials_running == 0
            and s.self.num_trials_finished == n_with(t0, lambda v: v == "Completed" or v == "Failed" or v == "Stopped" or v == "Stopping" or v == "InProgress"),
        }


from pyvc.native import native_monitor  # noqa: E402

EXTRA_CHECKS = [native_monitor("C12", "contracts.c12_native", "monitor_termination", "termination", "about 910 (thorough 4700) real Tuner runs on a deterministic in-memory back end and on the simulator (scripted, FIFO, Hyperband stopping / promotion, median rule, PBT; 1..4 workers; every StoppingCriterion field alone, in pairs and all together at value-1 / value / value+1; failure limits; exceptions), status counters and ~40 probe criteria compared with an independent event log after every loop iteration")]


# at the end (mutual import with contracts.c01): trials started by a batch must stay the tuner's business, also when the
# searcher runs out in the middle of the batch -- otherwise the run ends while they are still running
from contracts.c01 import Tuner_schedule_new_tasks  # noqa: F401,E402
