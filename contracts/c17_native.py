"""C17 (native monitor) -- the results log and the reported best configuration reflect what happened.

``monitor_results(tier, seed)`` drives the REAL ``Tuner`` / ``StoreResultsCallback`` / ``TuningStatus`` /
``MetricsStatistics`` / ``print_best_metric_found`` / ``metric_name_mode`` / ``load_experiment`` /
``ExperimentResult.best_config`` through a bounded catalogue of runs and compares, after every step, with a reference
that is computed here from what the in-memory back end handed to the tuning loop and from what the scheduler was
given (nothing of the reference is read from the objects under test).

Part A  real ``Tuner`` on an in-memory ``TrialBackend``:
        * scripted fixed-list scheduler: 21 structural shapes (plain, trial failing without / after results, STOP with a
          result of the same batch handed to the loop but never delivered, PAUSE + resume with changed / same
          configuration, PAUSE for good, NaN values, late / missing metrics, equal optima, one result, no result at all,
          back-end supplied tuner time, stop criterion leaving trials running, text column, integer metrics, and the
          exit paths of ``Tuner.run`` that end in an exception: abort because more than ``max_failures`` trials failed
          (max_failures 1 and 0, results delivered before / between / after the failures), exception raised by the
          scheduler in ``on_trial_result`` / in ``suggest``; the expected exception is caught and the file on disk
          must still hold exactly the delivered rows, in order) x metric
          variants (1-3 metrics, mode a string or a list) x n_workers x burst (results released per poll) x
          results_update_interval (with a controlled clock: interval elapsed at chosen polls / never), plus
          seed-dependent random scripts;
        * shipped schedulers (FIFO/random, Hyperband stopping, Hyperband promotion = resumed trials whose configuration
          changed, MOASHA = list of modes, PBT) on learning curves that are functions of the configuration.
Part B  ``StoreResultsCallback`` + ``TuningStatus`` driven directly on ALL small tables: every sequence of <= 4 (5) cells
        from {low, high, NaN, missing} for the first metric (second metric mirrored), 3 row-to-trial patterns, 6 metric /
        mode declarations, trials without any result, 5 special tables (results without any number, empty results,
        text and numbers in one auxiliary column), plus seed-dependent random tables (<= 4 trials x <= 4 results,
        3 metrics, negative / huge / tiny / integer values, inf in an auxiliary column, text column).
Part C  ``metric_name_mode`` on every declaration x every index / name.
Part D  read-back of text values that are spelled like pandas' missing-value markers ('None', 'NA', '', ...), as a
        clause of its own.

What the statement leaves open is left open here: which of several trials / rows attaining the optimum is reported;
which of the configurations of a resumed trial ``Tuner.best_config`` returns; floating-point text (rel 1e-12) and
summation order (first-order bound); min / max / sum of a metric for which numbers AND non-numbers were handed
(documented: "statistics are tracked for numeric types only, the first type defines the type"); min / max when only NaN
was handed (must not be a finite number); sum once a NaN was handed (NaN or the sum of the numbers); the best
configuration when no number was handed for the chosen metric; how an empty table is stored; sums whose partial sums
leave the range of a double.

Every exit path of ``Tuner.run`` (search space exhausted, stop criterion met, abort by failures, scheduler exception) must
be taken at least once with rows that only ``on_tuning_end`` can write (update interval never elapsed), otherwise the
monitor raises.  Statistics / best-trial clauses are not evaluated after a scheduler exception (the tuning status of
the interrupted iteration is not final).

History: the first version refuted two clauses on the pinned tree; both defects were repaired in /repo since (the run-end
summary for a LIST of modes; ``load_experiment`` reading 'None', 'NA', 'null', ... back as NaN).  What remains, under a
clause of its own (recorded known finding): read-back-keeps-the-empty-string-as-a-text-value -- an empty-string text
value cannot be told from a missing cell in CSV.

Bounded stand-in, never counted as proved.
"""
import contextlib
import copy
import datetime as _dt
import io
import itertools
import json
import logging
import math
import numbers
import os
import re
import shutil
import sys
import tempfile
import time
import warnings
from collections import Counter, defaultdict

import numpy as np

NAN = float("nan")
MISSING = "<missing>"

C_ROWS = "log-has-exactly-one-row-per-result-delivered-to-the-scheduler-in-delivery-order"
C_VALUES = "row-carries-the-delivered-result's-values"
C_TID = "row-carries-the-trial-id"
C_CONFIG = "row-carries-the-trial's-full-configuration-at-delivery"
C_DECISION = "row-carries-the-scheduler's-decision"
C_TIME = "row-carries-a-tuner-time-stamp"
C_EARLIER = "earlier-rows-unchanged-by-later-results"
C_HANDED = "results-handed-to-the-loop-are-not-altered-by-logging"
C_PREFIX = "file-on-disk-is-a-prefix-of-the-log-at-any-time"
C_FREQ = "file-complete-once-the-update-interval-has-elapsed"
C_END = "file-complete-after-tuning-end"
C_READBACK = "read-back-table-equals-log-up-to-float-text"
C_MARKERS = "read-back-keeps-text-values-spelled-like-missing-value-markers"
C_MARKERS_EMPTY = "read-back-keeps-the-empty-string-as-a-text-value"
C_CNT_ALL = "overall-count-equals-number-of-results-handed-to-the-loop"
C_CNT_TRIAL = "per-trial-count-equals-number-of-results-handed-for-the-trial"
C_MM_ALL = "overall-min-max-equal-min-max-of-values-handed"
C_MM_TRIAL = "per-trial-min-max-equal-min-max-of-values-handed-for-the-trial"
C_SUM_ALL = "overall-sum-equals-sum-of-values-handed"
C_SUM_TRIAL = "per-trial-sum-equals-sum-of-values-handed-for-the-trial"
C_NAMES = "statistics-exist-exactly-for-names-with-numeric-values-handed"
C_NMM = "metric_name_mode-resolves-index-and-name-to-that-metric-and-its-own-mode"
C_TB_DEFAULT = "tuner-best_config-default-trial-attains-optimum-of-first-metric-in-its-mode"
C_TB_INDEX = "tuner-best_config-by-index-trial-attains-optimum-of-chosen-metric-in-chosen-mode"
C_TB_NAME = "tuner-best_config-by-name-trial-attains-optimum-of-chosen-metric-in-chosen-mode"
C_TB_CONFIG = "tuner-best_config-returns-a-configuration-of-the-reported-trial"
C_PB = "print_best_metric_found-returns-optimum-value-and-a-trial-attaining-it"
C_SUMMARY = "run-end-summary-reports-the-optimum-of-the-first-metric-in-its-mode[mode-declared-as-string]"
C_SUMMARY_LIST = "run-end-summary-reports-the-optimum-of-the-first-metric-in-its-own-mode[modes-declared-as-list]"
C_EB_INDEX = "loaded-experiment-best_config-by-index-row-attains-optimum-over-table-rows"
C_EB_NAME = "loaded-experiment-best_config-by-name-row-attains-optimum-over-table-rows"
C_EB_ROW = "loaded-experiment-best_config-trial-id-and-configuration-are-those-of-an-optimal-row"
C_NOERR = "run-store-and-load-complete-without-error"

CLAUSES = [
    C_ROWS, C_VALUES, C_TID, C_CONFIG, C_DECISION, C_TIME, C_EARLIER, C_HANDED,
    C_PREFIX, C_FREQ, C_END, C_READBACK, C_MARKERS, C_MARKERS_EMPTY,
    C_CNT_ALL, C_CNT_TRIAL, C_MM_ALL, C_MM_TRIAL, C_SUM_ALL, C_SUM_TRIAL, C_NAMES,
    C_NMM, C_TB_DEFAULT, C_TB_INDEX, C_TB_NAME, C_TB_CONFIG, C_PB, C_SUMMARY, C_SUMMARY_LIST,
    C_EB_INDEX, C_EB_NAME, C_EB_ROW, C_NOERR,
]  # fmt: skip

MAX_VIOLATIONS_PER_CLAUSE = 5


class ScriptedSchedulerError(Exception):
    """raised on purpose by the scripted scheduler (exit path 'exception raised by the scheduler')"""

_LAST_BOOK = None
FLOAT_TEXT_RTOL = 1e-12
NA_MARKERS = ["None", "NA", "", "nan", "NaN", "null", "NULL", "N/A", "n/a", "<NA>", "#N/A"]


# --------------------------------------------------------------------------------------------------------------
# bookkeeping
# --------------------------------------------------------------------------------------------------------------
def _js(x, depth=0):
    """json-safe, short, NaN-free rendering of a value"""
    if isinstance(x, dict):
        return {str(k): _js(v, depth + 1) for k, v in list(x.items())[:40]}
    if isinstance(x, (list, tuple, set)):
        return [_js(v, depth + 1) for v in list(x)[:40]]
    if isinstance(x, (bool, str)) or x is None:
        return x
    if isinstance(x, numbers.Integral):
        return int(x)
    if isinstance(x, numbers.Real):
        x = float(x)
        return x if math.isfinite(x) else repr(x)
    return repr(x)[:120]


class _Book:
    def __init__(self):
        self.n = 0
        self.per = Counter()
        self.viol = []
        self.nviol = Counter()

    def check(self, clause, ok, **details):
        assert clause in CLAUSES, clause
        self.n += 1
        self.per[clause] += 1
        if not ok:
            self.nviol[clause] += 1
            if self.nviol[clause] <= MAX_VIOLATIONS_PER_CLAUSE:
                d = {"clause": clause}
                d.update(_js(details))
                self.viol.append(d)
        return bool(ok)


# --------------------------------------------------------------------------------------------------------------
# independent reference
# --------------------------------------------------------------------------------------------------------------
def _is_num(v):
    return isinstance(v, numbers.Real) and not isinstance(v, bool)


def _is_nan(v):
    return _is_num(v) and v != v


def _same(a, b):
    """exact equality of two in-memory values (NaN equals NaN, 1 equals 1.0, text only equals text)"""
    if isinstance(a, dict) and isinstance(b, dict):
        return list(a.keys()) == list(b.keys()) and all(_same(a[k], b[k]) for k in a)
    if _is_nan(a) or _is_nan(b):
        return _is_nan(a) and _is_nan(b)
    if _is_num(a) != _is_num(b):
        return False
    try:
        return bool(a == b)
    except Exception:
        return False


def _ref_optimum(values, mode):
    """optimum in the given mode over the numbers among ``values``; NaN and non-numbers never win; None if no number"""
    nums = [v for v in values if _is_num(v) and not _is_nan(v)]
    if not nums:
        return None
    return min(nums) if mode == "min" else max(nums)


def _mode_of(names, modes, pos):
    return modes if isinstance(modes, str) else modes[pos]


def _sum_ok(got, vals):
    """``got`` is the sum of ``vals`` (all numeric) up to summation order; once a NaN was handed: NaN or the sum of the
    numbers"""
    if not _is_num(got):
        return False
    nums = [v for v in vals if not _is_nan(v)]
    has_nan = len(nums) < len(vals)
    if has_nan and _is_nan(got):
        return True
    pos_inf = any(v == math.inf for v in nums)
    neg_inf = any(v == -math.inf for v in nums)
    if pos_inf and neg_inf:
        return _is_nan(got)
    if pos_inf or neg_inf:
        return got == (math.inf if pos_inf else -math.inf)
    if _is_nan(got):
        return False
    if all(isinstance(v, numbers.Integral) for v in nums):
        return got == sum(int(v) for v in nums)
    try:
        ref = math.fsum(float(v) for v in nums)
        bound = (len(nums) + 1) * 2.3e-16 * math.fsum(abs(float(v)) for v in nums)
    except OverflowError:
        return True  # partial sums leave the range of a double: open
    if math.isinf(bound) or abs(ref) + bound > 1.7e308:
        return True  # a partial sum may have overflowed, depending on the order: open
    return abs(float(got) - ref) <= bound


def _check_statistics(book, stats, results, c_cnt, c_mm, c_sum, where):
    """``stats`` (a MetricsStatistics) against the list of result dictionaries ``results`` handed so far"""
    book.check(c_cnt, stats.count == len(results), where=where, count=stats.count, handed=len(results))
    names = []
    for r in results:
        for k in r:
            if k not in names:
                names.append(k)
    any_numeric, all_numeric = set(), set()
    for name in names:
        vals = [r[name] for r in results if name in r]
        kinds = {_is_num(v) for v in vals}
        if True in kinds:
            any_numeric.add(name)
        if kinds == {True}:
            all_numeric.add(name)
            nums = [v for v in vals if not _is_nan(v)]
            present = name in stats.min_metrics and name in stats.max_metrics and name in stats.sum_metrics
            if not present:
                book.check(c_mm, False, where=where, metric=name, problem="no statistics for a numeric metric", values=vals)
                continue
            mn, mx, sm = stats.min_metrics[name], stats.max_metrics[name], stats.sum_metrics[name]
            if nums:
                book.check(c_mm, _same(mn, min(nums)) and _same(mx, max(nums)), where=where, metric=name, values=vals, got_min=mn, got_max=mx)
            else:  # only NaN handed: no number may be claimed
                book.check(c_mm, not (_is_num(mn) and math.isfinite(mn)) and not (_is_num(mx) and math.isfinite(mx)), where=where, metric=name, values=vals, got_min=mn, got_max=mx)
            book.check(c_sum, _sum_ok(sm, vals), where=where, metric=name, values=vals, got_sum=sm)
        # numbers AND non-numbers handed for one name: open (documented: the first type defines the type)
    claimed = set(stats.min_metrics) | set(stats.max_metrics) | set(stats.sum_metrics)
    # a statistic needs at least one number handed under that name; a name with nothing but numbers has statistics
    book.check(C_NAMES, claimed <= any_numeric and all_numeric <= claimed, where=where, statistics_for=sorted(claimed), names_with_numbers_handed=sorted(any_numeric))


def _check_status(book, status, handed, where):
    """TuningStatus against the list ``handed`` of (trial_id, result) handed to the tuning loop so far"""
    _check_statistics(book, status.overall_metric_statistics, [r for _, r in handed], C_CNT_ALL, C_MM_ALL, C_SUM_ALL, where + "/overall")
    per = defaultdict(list)
    for tid, r in handed:
        per[tid].append(r)
    known = dict(status.trial_metric_statistics)
    for tid, st in known.items():
        _check_statistics(book, st, per.get(tid, []), C_CNT_TRIAL, C_MM_TRIAL, C_SUM_TRIAL, where + "/trial %s" % tid)
    for tid in per:
        if tid not in known:
            book.check(C_CNT_TRIAL, False, where=where + "/trial %s" % tid, problem="no statistics for a trial with results", handed=len(per[tid]))


def _attaining(handed, name, mode):
    """(optimum, set of trials attaining it) over the (trial_id, result) pairs"""
    opt = _ref_optimum([r[name] for _, r in handed if name in r], mode)
    if opt is None:
        return None, set()
    return opt, {tid for tid, r in handed if name in r and _is_num(r[name]) and not _is_nan(r[name]) and r[name] == opt}


# --------------------------------------------------------------------------------------------------------------
# row checks (in-memory log of StoreResultsCallback)
# --------------------------------------------------------------------------------------------------------------
def _check_row(book, row, delivery, prev_time, elapsed, where):
    """``row``: the dictionary appended by the callback; ``delivery``: what the scheduler was given and answered"""
    res = delivery["result"]
    ok = isinstance(row, dict) and all(k in row and _same(row[k], v) for k, v in res.items())
    book.check(C_VALUES, ok, where=where, result=res, row=row)
    if not isinstance(row, dict):
        return prev_time
    book.check(C_TID, "trial_id" in row and _is_num(row["trial_id"]) and row["trial_id"] == delivery["trial_id"], where=where, trial_id=delivery["trial_id"], row=row)
    cfg = delivery["config"]
    book.check(C_CONFIG, all(("config_" + k) in row and _same(row["config_" + k], v) for k, v in cfg.items()) and {k for k in row if k.startswith("config_")} == {"config_" + k for k in cfg}, where=where, config=cfg, row=row)
    book.check(C_DECISION, row.get("st_decision") == delivery["decision"], where=where, decision=delivery["decision"], row=row)
    t = row.get("st_tuner_time")
    if "st_tuner_time" in res:
        book.check(C_TIME, _same(t, res["st_tuner_time"]), where=where, problem="time stamp supplied with the result not kept", row=row)
        return prev_time
    ok = _is_num(t) and not _is_nan(t) and 0.0 <= t <= elapsed and (prev_time is None or t >= prev_time)
    book.check(C_TIME, ok, where=where, stamp=t, previous=prev_time, elapsed=elapsed)
    return t if _is_num(t) and not _is_nan(t) else prev_time


# --------------------------------------------------------------------------------------------------------------
# table read back from disk
# --------------------------------------------------------------------------------------------------------------
def _cell_matches(orig, read):
    import pandas as pd

    if isinstance(read, np.generic):
        read = read.item()
    if orig is MISSING or orig is None or _is_nan(orig):
        try:
            return bool(pd.isna(read))
        except Exception:
            return False
    if _is_num(orig):
        if isinstance(read, str):  # a column that also holds text is read back as text
            try:
                read = float(read)
            except ValueError:
                return False
        if not _is_num(read) or _is_nan(read):
            return False
        if math.isinf(orig) or math.isinf(read):
            return orig == read
        return abs(float(read) - float(orig)) <= FLOAT_TEXT_RTOL * abs(float(orig))
    if isinstance(orig, str):
        return isinstance(read, str) and read == orig
    return str(read) == str(orig)


def _check_table(book, table, log, where, clause=C_READBACK):
    """``table``: DataFrame read back; ``log``: list of row dictionaries held by the callback"""
    if not log:
        ok = table is None or len(table) == 0
        return book.check(clause, ok, where=where, problem="rows read back for an empty log")
    if table is None:
        return book.check(clause, False, where=where, problem="no table could be read", rows=len(log))
    if len(table) != len(log):
        return book.check(clause, False, where=where, problem="number of rows", table=len(table), log=len(log))
    cols = []
    for r in log:
        for k in r:
            if k not in cols:
                cols.append(k)
    if set(table.columns) != set(cols):
        return book.check(clause, False, where=where, problem="columns", table=list(table.columns), log=cols)
    recs = table.to_dict("records")
    for i, (r, got) in enumerate(zip(log, recs)):
        for k in cols:
            if not _cell_matches(r.get(k, MISSING), got[k]):
                return book.check(clause, False, where=where, row=i, column=k, logged=r.get(k, MISSING), read=got[k])
    return book.check(clause, True)


def _read_file(path):
    import pandas as pd

    if not os.path.exists(path):
        return "absent"
    try:
        return pd.read_csv(path)
    except pd.errors.EmptyDataError:
        return None


def _check_disk_step(book, path, log, must_be_complete, where):
    """file on disk against the in-memory log after a delivery"""
    t = _read_file(path)
    if isinstance(t, str):
        if must_be_complete:
            book.check(C_FREQ, False, where=where, problem="no file although the update interval has elapsed", rows=len(log))
        else:
            book.check(C_PREFIX, True)
        return
    n = 0 if t is None else len(t)
    ok = n <= len(log)
    if ok and n:
        ids = [int(x) for x in t["trial_id"]]
        ok = ids == [int(r["trial_id"]) for r in log[:n]]
        if ok and "st_worker_timestamp" in t.columns:
            ok = all(_cell_matches(r.get("st_worker_timestamp", MISSING), x) for r, x in zip(log[:n], t["st_worker_timestamp"]))
    book.check(C_PREFIX, ok, where=where, rows_on_disk=n, rows_logged=len(log))
    if must_be_complete:
        book.check(C_FREQ, n == len(log), where=where, rows_on_disk=n, rows_logged=len(log))


def _check_experiment(book, env, root, name, names, modes, log, where):
    """load_experiment + ExperimentResult.best_config against the log"""
    try:
        with _quiet():
            exp = env["load_experiment"](name, download_if_not_found=False, local_path=root)
    except Exception as e:
        book.check(C_NOERR, False, where=where, call="load_experiment", raised=repr(e)[:300])
        return
    book.check(C_NOERR, True)
    book.check(C_END, (exp.results is not None and len(exp.results) == len(log)) or (not log and exp.results is None), where=where, rows_on_disk=None if exp.results is None else len(exp.results), rows_logged=len(log))
    _check_table(book, exp.results, log, where)
    if exp.results is None or len(exp.results) != len(log):
        return
    for pos, mname in enumerate(names):
        mode = _mode_of(names, modes, pos)
        vals = [r.get(mname, MISSING) for r in log]
        if any(isinstance(v, str) and v is not MISSING for v in vals):
            continue  # text among the values of the chosen metric: open
        opt = _ref_optimum(vals, mode)
        if opt is None:
            continue  # no number in the column: open
        for metric, clause in ((pos, C_EB_INDEX), (mname, C_EB_NAME)):
            try:
                with _quiet():
                    best = exp.best_config(metric=metric)
            except Exception as e:
                book.check(clause, False, where=where, metric=metric, mode=mode, column=vals, raised=repr(e)[:300])
                continue
            got = best.get(mname, MISSING) if isinstance(best, dict) else MISSING
            ok = _cell_matches(opt, got)
            book.check(clause, ok, where=where, metric=metric, mode=mode, column=vals, optimum=opt, reported=got, reported_trial=best.get("trial_id") if isinstance(best, dict) else None)
            if ok:
                rows = [r for r in log if _is_num(r.get(mname)) and _cell_matches(r[mname], got)]
                match = any(_cell_matches(r["trial_id"], best.get("trial_id")) and all(_cell_matches(v, best.get(k, MISSING)) for k, v in r.items() if k.startswith("config_")) for r in rows)
                book.check(C_EB_ROW, match, where=where, metric=metric, reported=best, optimal_rows=[{k: v for k, v in r.items() if k == "trial_id" or k.startswith("config_")} for r in rows][:4])


# --------------------------------------------------------------------------------------------------------------
# environment (library imports, controlled clock)
# --------------------------------------------------------------------------------------------------------------
@contextlib.contextmanager
def _quiet():
    buf = io.StringIO()
    with warnings.catch_warnings():
        warnings.simplefilter("ignore")
        with contextlib.redirect_stdout(buf):
            yield buf


class _Clock(_dt.datetime):
    """``datetime`` whose ``now`` can be moved forward: stands in for ``syne_tune.util.datetime`` so that the
    elapse of results_update_interval is under control of the monitor (RegularCallback reads the clock there)"""

    offset = 0.0

    @classmethod
    def now(cls, tz=None):
        return _dt.datetime.now(tz) + _dt.timedelta(seconds=cls.offset)


def _environment():
    sys.modules.setdefault("yahpo_gym", None)
    if not hasattr(np, "NaN"):
        np.NaN = np.nan  # compatibility alias needed to import syne_tune.experiments under numpy 2; nothing under test uses it
    env = {}
    with _quiet():
        import syne_tune.util as util
        from syne_tune import Tuner
        from syne_tune.backend.trial_backend import TrialBackend
        from syne_tune.backend.trial_status import Status, Trial, TrialResult
        from syne_tune.config_space import choice, randint, uniform
        from syne_tune.constants import ST_METADATA_FILENAME, ST_RESULTS_DATAFRAME_FILENAME, ST_TUNER_CREATION_TIMESTAMP, ST_WORKER_TIMESTAMP
        from syne_tune.experiments.experiment_result import load_experiment
        from syne_tune.optimizer.scheduler import SchedulerDecision, TrialScheduler, TrialSuggestion
        from syne_tune.results_callback import StoreResultsCallback
        from syne_tune.tuner_callback import TunerCallback
        from syne_tune.tuning_status import MetricsStatistics, TuningStatus, print_best_metric_found
    env.update(locals())
    env.pop("env")
    return env


# --------------------------------------------------------------------------------------------------------------
# Part A: in-memory back end, scripted scheduler, probe callback
# --------------------------------------------------------------------------------------------------------------
def _make_classes(env):
    TrialBackend, TrialResult, Status, TrialScheduler, TrialSuggestion, SchedulerDecision, TunerCallback = (env[k] for k in ("TrialBackend", "TrialResult", "Status", "TrialScheduler", "TrialSuggestion", "SchedulerDecision", "TunerCallback"))
    STAMP = env["ST_WORKER_TIMESTAMP"]

    class MemoryBackend(TrialBackend):
        """every poll releases the next ``burst`` results of every queried running trial (round robin, so that
        results of different trials interleave); ``producer(trial_id, config, k)`` gives the k-th result of a trial, None
        when the trial is complete, "fail" when it fails"""

        def __init__(self, producer, burst, jumps, jump_seconds):
            super().__init__()
            self.producer = producer
            self.burst = list(burst)
            self.jumps = set(jumps)
            self.jump_seconds = jump_seconds
            self.state = {}
            self.k = defaultdict(int)
            self.configs = defaultdict(list)  # what the back end was told to run, in order
            self.clock = 0
            self.polls = 0
            self.handed = []  # (trial_id, deep copy at hand-over)
            self.handed_objects = []  # the objects themselves
            self.interval_elapsed = False

        def _schedule(self, trial_id, config):
            self.configs[trial_id].append(copy.deepcopy(config))
            if trial_id in self.state:
                self.state[trial_id].config = config
                self.state[trial_id].status = Status.in_progress
            else:
                self.state[trial_id] = TrialResult(trial_id=trial_id, config=config, creation_time=_dt.datetime.now(), metrics=[], status=Status.in_progress)

        def current_config(self, trial_id):
            return copy.deepcopy(self.configs[trial_id][-1])

        def _all_trial_results(self, trial_ids):
            return [self.state[t] for t in trial_ids]

        def _peek(self, trial_id):
            return self.producer(trial_id, self.configs[trial_id][-1], self.k[trial_id])

        def fetch_status_results(self, trial_ids):
            self.polls += 1
            if self.polls > 400:
                raise RuntimeError("c17 monitor: tuning loop does not terminate")
            if self.polls in self.jumps or "all" in self.jumps:
                _Clock.offset += self.jump_seconds
                self.interval_elapsed = True
            burst = self.burst[(self.polls - 1) % len(self.burst)]
            running = [t for t in sorted(trial_ids) if self.state[t].status == Status.in_progress]
            for _ in range(burst):
                for t in running:
                    st = self.state[t]
                    if st.status != Status.in_progress:
                        continue
                    nxt = self._peek(t)
                    if isinstance(nxt, dict):
                        self.clock += 1
                        st.metrics.append(dict(nxt, **{STAMP: self.clock}))
                        self.k[t] += 1
            for t in running:
                nxt = self._peek(t)
                if nxt is None:
                    self.state[t].status = Status.completed if self.state[t].metrics else Status.failed
                elif nxt == "fail":
                    self.state[t].status = Status.failed
            trial_status_dict, results = super().fetch_status_results(trial_ids)
            for tid, r in results:
                self.handed.append((tid, copy.deepcopy(r)))
                self.handed_objects.append(r)
            return trial_status_dict, results

        def _stop_trial(self, trial_id, result):
            self.state[trial_id].status = Status.stopped

        def _pause_trial(self, trial_id, result):
            self.state[trial_id].status = Status.paused

        def _resume_trial(self, trial_id):
            pass

        def busy_trial_ids(self):
            return [(t, s.status) for t, s in self.state.items() if s.status in (Status.in_progress, Status.stopping)]

        def stdout(self, trial_id):
            return []

        def stderr(self, trial_id):
            return []

        def entrypoint_path(self):
            from pathlib import Path

            return Path("c17_monitor_entrypoint.py")

        def copy_checkpoint(self, src_trial_id, tgt_trial_id):
            pass

        def delete_checkpoint(self, trial_id):
            pass

    class ScriptedScheduler(TrialScheduler):
        """proposes the configurations of the script in order; decisions and resumes as scripted"""

        def __init__(self, config_space, spec):
            super().__init__(config_space)
            self.spec = spec
            self.next = 0
            self.seen = defaultdict(int)
            self.to_resume = []
            self.suggestions = 0

        def _suggest(self, trial_id):
            if self.spec.get("raise_at_suggestion") == self.suggestions:
                raise ScriptedSchedulerError("scripted: suggest call %d" % self.suggestions)
            self.suggestions += 1
            if self.to_resume:
                tid, cfg = self.to_resume.pop(0)
                return TrialSuggestion.resume_suggestion(tid, None if cfg is None else dict(cfg))
            if self.next < len(self.spec["trials"]):
                cfg = dict(self.spec["trials"][self.next]["config"])
                self.next += 1
                return TrialSuggestion.start_suggestion(cfg)
            return None

        def on_trial_result(self, trial, result):
            tid = trial.trial_id
            k = self.seen[tid]
            self.seen[tid] += 1
            if self.spec.get("raise_at_result") == (tid, k):
                raise ScriptedSchedulerError("scripted: result %d of trial %d" % (k, tid))
            script = self.spec["trials"][tid]
            decision = script.get("decisions", {}).get(k, SchedulerDecision.CONTINUE)
            if decision == SchedulerDecision.PAUSE and k in script.get("resume", {}):
                self.to_resume.append((tid, script["resume"][k]))
            return decision

        def metric_names(self):
            return list(self.spec["metrics"])

        def metric_mode(self):
            m = self.spec["modes"]
            return m if isinstance(m, str) else list(m)

    class Probe(TunerCallback):
        """placed AFTER the StoreResultsCallback: checks the log, the file and the statistics after every step"""

        def __init__(self, book, run):
            self.book = book
            self.run = run

        def on_tuning_start(self, tuner):
            self.run["tuner"] = tuner

        def on_trial_result(self, trial, status, result, decision):
            run = self.run
            book = self.book
            log = run["store"].results
            deliveries = run["deliveries"]
            where = "%s/delivery %d" % (run["id"], len(deliveries) - 1)
            ok = book.check(C_ROWS, len(log) == len(deliveries), where=where, rows=len(log), delivered=len(deliveries))
            if ok:
                run["prev_time"] = _check_row(book, log[-1], deliveries[-1], run["prev_time"], time.perf_counter() - run["t0"], where)
                run["snapshots"].append(copy.deepcopy(log[-1]))
            if run["disk_steps"]:
                backend = run["backend"]
                _check_disk_step(book, run["csv"], log, backend.interval_elapsed, where)
                backend.interval_elapsed = False

        def on_loop_end(self):
            run = self.run
            tuner = run["tuner"]
            handed = run["backend"].handed
            where = "%s/poll %d" % (run["id"], run["backend"].polls)
            _check_status(self.book, tuner.tuning_status, handed, where)
            if run["mid_run_best"]:
                _check_tuner_best(self.book, run, tuner, where, rotate=run["backend"].polls)

    return MemoryBackend, ScriptedScheduler, Probe


def _check_tuner_best(book, run, tuner, where, rotate=None):
    """Tuner.best_config (default / by index / by name) and print_best_metric_found against the results handed so far"""
    names, modes = run["metrics"], run["modes"]
    backend = run["backend"]
    handed = list(backend.handed)
    pbf = run["env"]["print_best_metric_found"]
    queries = [(None, 0, C_TB_DEFAULT)]
    for pos, n in enumerate(names):
        queries.append((pos, pos, C_TB_INDEX))
        queries.append((n, pos, C_TB_NAME))
    if rotate is not None:
        queries = [queries[rotate % len(queries)]]
    for metric, pos, clause in queries:
        name = names[pos]
        mode = _mode_of(names, modes, pos)
        opt, trials = _attaining(handed, name, mode)
        if opt is None or any(isinstance(r.get(name), str) for _, r in handed):
            continue  # no number (or text) handed for the chosen metric: open
        try:
            with _quiet():
                got = tuner.best_config() if metric is None else tuner.best_config(metric=metric)
            tid, cfg = got
        except Exception as e:
            book.check(clause, False, where=where, metric=metric, mode=mode, raised=repr(e)[:300], handed=handed[:30])
            continue
        ok = book.check(clause, tid in trials, where=where, metric=metric, chosen=name, mode=mode, optimum=opt, attained_by=sorted(trials), reported_trial=tid, handed=[(t, r.get(name, MISSING)) for t, r in handed][:40])
        if ok:
            book.check(C_TB_CONFIG, any(_same(dict(cfg), c) for c in backend.configs[tid]), where=where, metric=metric, reported_trial=tid, reported_config=cfg, configurations_of_trial=backend.configs[tid])
        if rotate is None and metric is not None and not isinstance(metric, str):
            try:
                with _quiet():
                    res = pbf(tuner.tuning_status, metric_names=[name], mode=mode)
                ok = res is not None and res[0] in trials and _same(res[1], opt)
            except Exception as e:
                res, ok = repr(e)[:300], False
            book.check(C_PB, ok, where=where, chosen=name, mode=mode, optimum=opt, attained_by=sorted(trials), returned=res)


SUMMARY_RE = re.compile(r"^(.+): best (\S+) for trial-id (\d+)\s*$", re.M)


def _run_tuner(book, env, classes, root, spec, scheduler=None, producer=None, stop=None, config_space=None):
    """one real Tuner run; returns a small description"""
    MemoryBackend, ScriptedScheduler, Probe = classes
    Tuner, StoreResultsCallback = env["Tuner"], env["StoreResultsCallback"]
    interval = spec.get("interval", 1000.0)
    if producer is None:

        def producer(tid, config, k):
            tr = spec["trials"][tid]
            if k < len(tr["results"]):
                return tr["results"][k]
            return "fail" if tr.get("fail") else None

    backend = MemoryBackend(producer, spec.get("burst", [1]), spec.get("jumps", ()), interval + 2.0)
    if scheduler is None:
        scheduler = ScriptedScheduler(config_space, spec)
    run = {"id": spec["id"], "env": env, "backend": backend, "deliveries": [], "snapshots": [], "prev_time": None, "metrics": list(scheduler.metric_names()), "modes": scheduler.metric_mode(), "disk_steps": spec.get("disk_steps", True), "mid_run_best": spec.get("mid_run_best", False)}
    inner = scheduler.on_trial_result

    def recording(trial, result):
        before = copy.deepcopy(result)
        decision = inner(trial=trial, result=result)
        run["deliveries"].append({"trial_id": trial.trial_id, "result": before, "config": backend.current_config(trial.trial_id), "decision": decision})
        return decision

    scheduler.on_trial_result = recording
    store = StoreResultsCallback()
    run["store"] = store
    name = "c17-%s" % re.sub(r"[^a-zA-Z0-9]+", "-", spec["id"]).strip("-")
    n_stop = spec.get("stop_after_finished")
    if stop is None:
        stop = (lambda st: False) if n_stop is None else (lambda st: st.num_trials_finished >= n_stop)
    run["t0"] = time.perf_counter()
    err = None
    with _quiet() as out:
        try:
            tuner = Tuner(trial_backend=backend, scheduler=scheduler, stop_criterion=stop, n_workers=spec.get("n_workers", 2), sleep_time=0.0, results_update_interval=interval, print_update_interval=1e6, max_failures=spec.get("max_failures", 1000), tuner_name=name, suffix_tuner_name=False, save_tuner=False, callbacks=[store, Probe(book, run)])
            run["csv"] = str(tuner.tuner_path / env["ST_RESULTS_DATAFRAME_FILENAME"])
            tuner.run()
        except Exception as e:
            err = e
    where = spec["id"]
    # exit paths of Tuner.run: stop criterion met / search space exhausted (no exception), abort because more than
    # max_failures trials failed (ValueError from the clean-up block), an exception raised by the scheduler (re-raised).
    # Whether the two latter end in an exception is left open; any OTHER exception is an error of the run.
    expected = ()
    if "max_failures" in spec:
        expected += (ValueError,)
    if "raise_at_result" in spec or "raise_at_suggestion" in spec:
        expected += (ScriptedSchedulerError,)
    book.check(C_NOERR, err is None or isinstance(err, expected), where=where, call="Tuner.run", raised=repr(err)[:300])
    if err is not None and not isinstance(err, expected):
        return run
    run["exit"] = "normal" if err is None else type(err).__name__
    loop_broken = isinstance(err, ScriptedSchedulerError)  # the tuning status of the interrupted iteration is not final
    log = store.results
    deliveries = run["deliveries"]
    # the log after the run: one row per delivery, in order; earlier rows were never touched again
    book.check(C_ROWS, len(log) == len(deliveries) and all(isinstance(r, dict) and r.get("trial_id") == d["trial_id"] and _same(r.get("st_worker_timestamp"), d["result"].get("st_worker_timestamp")) for r, d in zip(log, deliveries)), where=where, rows=len(log), delivered=len(deliveries))
    if run["snapshots"]:
        book.check(C_EARLIER, len(log) >= len(run["snapshots"]) and all(_same(a, b) for a, b in zip(log, run["snapshots"])), where=where)
    if backend.handed:
        book.check(C_HANDED, all(_same(o, c) for o, (_, c) in zip(backend.handed_objects, backend.handed)), where=where, first_altered=next((o for o, (_, c) in zip(backend.handed_objects, backend.handed) if not _same(o, c)), None))
    names, modes = run["metrics"], run["modes"]
    if not loop_broken:
        _check_status(book, tuner.tuning_status, backend.handed, where + "/end")
        _check_tuner_best(book, run, tuner, where + "/end")
    # end-of-run summary printed by Tuner.run
    opt, trials = _attaining(backend.handed, names[0], _mode_of(names, modes, 0))
    if opt is not None and not loop_broken:
        found = [m for m in SUMMARY_RE.findall(out.getvalue()) if m[0] == names[0]]
        ok = False
        if found:
            try:
                ok = int(found[-1][2]) in trials and float(found[-1][1]) == float(opt)
            except ValueError:
                ok = False
        book.check(C_SUMMARY if isinstance(modes, str) else C_SUMMARY_LIST, ok, where=where, metric=names[0], declared_modes=modes, optimum=opt, attained_by=sorted(trials), summary_line=": best ".join(found[-1][:2]) + " for trial-id " + found[-1][2] if found else None)
    _check_experiment(book, env, root, name, names, modes, log, where)
    shutil.rmtree(os.path.join(root, name), ignore_errors=True)
    return run


# ---- scripted catalogue ---------------------------------------------------------------------------------------
METRIC_VARIANTS = [
    (["loss", "acc"], ["min", "max"]),
    (["acc", "loss"], ["max", "min"]),
    (["loss"], "min"),
    (["acc"], "max"),
    (["loss", "cost"], "min"),
    (["loss", "acc", "cost"], ["min", "max", "min"]),
    (["acc", "cost"], "max"),
    (["cost", "acc"], ["min", "max"]),
]
ACTS = ["relu", "tanh", "gelu"]


def _config(rng, i):
    return {"lr": round(float(rng.uniform(0.01, 0.99)), 4), "width": int(rng.randint(1, 64)), "act": ACTS[i % 3]}


def _curve(rng, n, ints=False):
    out = []
    for e in range(1, n + 1):
        r = {"epoch": e, "loss": round(float(rng.uniform(0.05, 2.0)), 4), "acc": round(float(rng.uniform(0.0, 1.0)), 4), "cost": int(rng.randint(1, 50)) if ints or rng.rand() < 0.5 else round(float(rng.uniform(0.5, 50.0)), 3)}
        if ints:
            r["loss"] = int(rng.randint(1, 9))
        out.append(r)
    return out


def _designed_curves():
    """argmin(loss), argmax(loss) and argmax(acc) are three different trials (x = 0.30, 0.95, 0.75)"""
    trials = []
    for i, x in enumerate((0.95, 0.30, 0.75, 0.55)):
        res = [{"epoch": e, "loss": round((x - 0.3) ** 2 + 1.0 / (e + 1), 6), "acc": round(1.0 - abs(x - 0.75) - 0.1 / e, 6), "cost": round(10 * x + e, 3)} for e in (1, 2, 3)]
        trials.append({"config": {"lr": x, "width": 8 * (i + 1), "act": ACTS[i % 3]}, "results": res})
    return trials


def _shape(shape, rng):
    """list of trial scripts for a structural shape"""
    T = lambda i, n, **kw: dict({"config": _config(rng, i), "results": _curve(rng, n)}, **kw)  # noqa: E731
    if shape == "plain-designed":
        return _designed_curves()
    if shape == "plain":
        return [T(i, 3) for i in range(3)]
    if shape == "fails-without-results":
        return [T(0, 2), T(1, 0, fail=True), T(2, 3), T(3, 0, fail=True)]
    if shape == "fails-after-results":
        return [T(0, 3), T(1, 1, fail=True), T(2, 2, fail=True)]
    if shape == "stop":
        return [T(0, 4, decisions={1: "STOP"}), T(1, 3), T(2, 4, decisions={0: "STOP"})]
    if shape == "pause-resume-changed-config":
        tr = [T(0, 4, decisions={0: "PAUSE"}), T(1, 3, decisions={1: "PAUSE"}), T(2, 2)]
        tr[0]["resume"] = {0: dict(tr[0]["config"], lr=round(tr[0]["config"]["lr"] / 2 + 0.001, 5), width=tr[0]["config"]["width"] + 1, act="gelu")}
        tr[1]["resume"] = {1: dict(tr[1]["config"], lr=0.777)}
        return tr
    if shape == "pause-resume-same-config":
        return [T(0, 3, decisions={0: "PAUSE", 1: "PAUSE"}, resume={0: None, 1: None}), T(1, 2)]
    if shape == "pause-for-good":
        return [T(0, 3, decisions={0: "PAUSE"}), T(1, 3), T(2, 2, decisions={1: "PAUSE"})]
    if shape == "nan-values":
        tr = [T(i, 3) for i in range(4)]
        best = min(range(4), key=lambda i: min(r["loss"] for r in tr[i]["results"]))
        tr[best]["results"][1]["loss"] = NAN  # the trial that would win has a NaN in between
        other = (best + 1) % 4
        for r in tr[other]["results"]:
            r["loss"] = NAN  # a trial with nothing but NaN
            r["acc"] = NAN
        tr[(best + 2) % 4]["results"][0]["acc"] = NAN  # NaN is the very first value of a trial
        tr[(best + 2) % 4]["results"][0]["cost"] = NAN
        return tr
    if shape == "nan-first-overall":
        tr = [T(i, 2) for i in range(3)]
        for k in ("loss", "acc", "cost"):
            tr[0]["results"][0][k] = NAN
        return tr
    if shape == "late-and-missing-metrics":
        tr = [T(i, 3) for i in range(3)]
        del tr[0]["results"][0]["acc"]  # reported from the second result on
        del tr[1]["results"][2]["loss"]
        for r in tr[2]["results"]:
            del r["cost"]  # a trial that never reports the metric
            del r["acc"]
        return tr
    if shape == "equal-optima":
        tr = [T(i, 2) for i in range(3)]
        for i in (0, 2):
            tr[i]["results"][1].update(loss=0.01, acc=1.5, cost=0)
        return tr
    if shape == "one-result":
        return [T(0, 1)]
    if shape == "no-result-at-all":
        return [T(0, 0, fail=True), T(1, 0, fail=True)]
    if shape == "tuner-time-from-backend":
        tr = [T(i, 3) for i in range(2)]
        for i, t in enumerate(tr):
            for k, r in enumerate(t["results"]):
                r["st_tuner_time"] = 100.0 * (k + 1) + i  # simulator back ends supply the stamp
        return tr
    if shape == "stop-criterion-leaves-trials-running":
        return [T(0, 1), T(1, 4), T(2, 2), T(3, 4)]
    if shape == "text-column-and-integer-metrics":
        tr = [{"config": _config(rng, i), "results": _curve(rng, 3, ints=True)} for i in range(3)]
        for t in tr:
            for k, r in enumerate(t["results"]):
                r["phase"] = ["warmup", "train", "diverged"][k]
        return tr
    if shape == "abort-too-many-failures":  # max_failures=1: results delivered before, between and after the failures
        return [T(0, 2), T(1, 1, fail=True), T(2, 3), T(3, 0, fail=True), T(4, 2), T(5, 2)]
    if shape == "abort-at-first-failure":  # max_failures=0
        return [T(0, 3), T(1, 2, fail=True), T(2, 2), T(3, 1)]
    if shape in ("scheduler-raises-on-result", "scheduler-raises-in-suggest"):
        return [T(0, 2), T(1, 3), T(2, 2), T(3, 2), T(4, 1)]
    raise ValueError(shape)


EXIT_SHAPES = {
    "abort-too-many-failures": {"max_failures": 1},
    "abort-at-first-failure": {"max_failures": 0},
    "scheduler-raises-on-result": {"raise_at_result": (1, 1)},
    "scheduler-raises-in-suggest": {"raise_at_suggestion": 3},
}
SHAPES = [
    "plain-designed", "plain", "fails-without-results", "fails-after-results", "stop", "pause-resume-changed-config",
    "pause-resume-same-config", "pause-for-good", "nan-values", "nan-first-overall", "late-and-missing-metrics",
    "equal-optima", "one-result", "no-result-at-all", "tuner-time-from-backend", "stop-criterion-leaves-trials-running",
    "text-column-and-integer-metrics",
    "abort-too-many-failures", "abort-at-first-failure", "scheduler-raises-on-result", "scheduler-raises-in-suggest",
]  # fmt: skip
WORKERS = [1, 2, 3]
BURSTS = [[1], [2], [1, 3]]
INTERVALS = [(1000.0, ()), (5.0, (2, 4)), (0.0, ("all",))]


def _random_script(rng):
    n = int(rng.randint(1, 6))
    trials = []
    for i in range(n):
        m = int(rng.choice([0, 1, 2, 3, 4], p=[0.1, 0.2, 0.25, 0.25, 0.2]))
        t = {"config": _config(rng, int(rng.randint(0, 3))), "results": _curve(rng, m, ints=rng.rand() < 0.15), "fail": bool(m == 0 or rng.rand() < 0.15)}
        for r in t["results"]:
            for k in ("loss", "acc", "cost"):
                u = rng.rand()
                if u < 0.12:
                    r[k] = NAN
                elif u < 0.22:
                    del r[k]
            if rng.rand() < 0.2:
                r["phase"] = str(rng.choice(["warmup", "train", "diverged"]))
        dec, res = {}, {}
        for k in range(m):
            u = rng.rand()
            if u < 0.12:
                dec[k] = "STOP"
                break
            if u < 0.3:
                dec[k] = "PAUSE"
                v = rng.rand()
                if v < 0.45:
                    res[k] = dict(t["config"], lr=round(float(rng.uniform(0.01, 0.99)), 4), width=int(rng.randint(1, 64)))
                elif v < 0.75:
                    res[k] = None
                else:
                    break
        t["decisions"], t["resume"] = dec, res
        trials.append(t)
    return trials


def _tuner_catalogue(tier, seed):
    specs = []
    n = 0
    for si, shape in enumerate(SHAPES):
        combos = list(itertools.product(range(3), range(3), range(3)))
        if tier == "quick":
            combos = [(a, (a + si) % 3, (2 * a + si) % 3) for a in range(3)]  # each level of each factor once per shape
        for ci, (w, b, iv) in enumerate(combos):
            rng = np.random.RandomState(1000 * seed + 17 * si + (ci if tier == "quick" else 0) + 5)
            names, modes = METRIC_VARIANTS[(si + ci) % len(METRIC_VARIANTS)]
            spec = {"id": "A%d/%s/w%d-b%d-i%d" % (n, shape, WORKERS[w], b, iv), "metrics": names, "modes": modes, "trials": _shape(shape, rng), "n_workers": WORKERS[w], "burst": BURSTS[b], "interval": INTERVALS[iv][0], "jumps": INTERVALS[iv][1]}
            if shape == "stop-criterion-leaves-trials-running":
                spec["stop_after_finished"] = 2
            spec.update(EXIT_SHAPES.get(shape, {}))
            spec["mid_run_best"] = ci % (3 if tier == "quick" else 9) == 0
            specs.append(spec)
            n += 1
    rng = np.random.RandomState(7919 * seed + 11)
    rng_exit = np.random.RandomState(6271 * seed + 29)
    for j in range(40 if tier == "quick" else 120):
        names, modes = METRIC_VARIANTS[int(rng.randint(len(METRIC_VARIANTS)))]
        iv = int(rng.randint(3))
        specs.append({"id": "A%d/random-script-%d" % (n, j), "metrics": names, "modes": modes, "trials": _random_script(rng), "n_workers": int(rng.randint(1, 4)), "burst": BURSTS[int(rng.randint(3))], "interval": INTERVALS[iv][0], "jumps": INTERVALS[iv][1], "mid_run_best": j % 4 == 0, "disk_steps": j % 2 == 0})
        u = rng_exit.rand()
        if u < 0.25:
            specs[-1]["max_failures"] = int(rng_exit.randint(0, 2))  # may abort: more failed trials than allowed
        elif u < 0.35:
            specs[-1]["raise_at_suggestion"] = int(rng_exit.randint(1, 5))
        elif u < 0.45:
            specs[-1]["raise_at_result"] = (int(rng_exit.randint(0, 3)), int(rng_exit.randint(0, 3)))
        elif u < 0.55:
            specs[-1]["stop_after_finished"] = int(rng_exit.randint(1, 4))
        n += 1
    return specs


def _describe(spec):
    def cell(v):
        return "nan" if _is_nan(v) else v

    return {"id": spec["id"], "metrics": spec["metrics"], "modes": spec["modes"], "n_workers": spec.get("n_workers"), "burst": spec.get("burst"), "interval": spec.get("interval"), "max_failures": spec.get("max_failures"), "scheduler_raises": spec.get("raise_at_result") or spec.get("raise_at_suggestion"), "trials": [{"results": [{k: cell(v) for k, v in r.items() if k != "epoch"} for r in t["results"]][:3], "fail": t.get("fail", False), "decisions": {str(k): v for k, v in t.get("decisions", {}).items()}, "resumed_with_new_config": [str(k) for k, v in t.get("resume", {}).items() if v is not None]} for t in spec["trials"][:3]]}


# ---- shipped schedulers -----------------------------------------------------------------------------------------
def _shipped_runs(book, env, classes, root, tier, seed):
    uniform, randint, choice = env["uniform"], env["randint"], env["choice"]
    with _quiet():
        from syne_tune.optimizer.schedulers import FIFOScheduler, HyperbandScheduler
        from syne_tune.optimizer.schedulers.multiobjective.moasha import MOASHA
        from syne_tune.optimizer.schedulers.pbt import PopulationBasedTraining
    max_t = 4

    def producer(tid, config, k):
        epoch = k + 1
        if epoch > int(config.get("epochs", max_t)):
            return None
        if int(config["width"]) % 11 == 0 and epoch >= 2:
            return "fail"
        lr = float(config["lr"])
        return {"epoch": epoch, "loss": round((lr - 0.3) ** 2 + 1.0 / (epoch + 1) + 0.001 * (tid % 5), 6), "acc": round(1.0 - abs(lr - 0.7) - 0.1 / epoch + 0.002 * (tid % 3), 6)}

    def space(**kw):
        return dict({"lr": uniform(0.0, 1.0), "width": randint(1, 64), "act": choice(ACTS)}, **kw)

    makers = [
        ("fifo-random-max", lambda s: FIFOScheduler(space(epochs=max_t), searcher="random", metric="acc", mode="max", random_seed=s)),
        ("hyperband-stopping", lambda s: HyperbandScheduler(space(epochs=max_t), searcher="random", metric="loss", mode="min", resource_attr="epoch", max_resource_attr="epochs", type="stopping", grace_period=1, reduction_factor=2, random_seed=s)),
        ("hyperband-promotion", lambda s: HyperbandScheduler(space(epochs=max_t), searcher="random", metric="loss", mode="min", resource_attr="epoch", max_resource_attr="epochs", type="promotion", grace_period=1, reduction_factor=2, random_seed=s)),
        ("hyperband-promotion-max", lambda s: HyperbandScheduler(space(epochs=max_t), searcher="random", metric="acc", mode="max", resource_attr="epoch", max_resource_attr="epochs", type="promotion", grace_period=1, reduction_factor=2, random_seed=s)),
        ("moasha-min-max", lambda s: _seeded(s, lambda: MOASHA(space(epochs=max_t), metrics=["loss", "acc"], mode=["min", "max"], time_attr="epoch", max_t=max_t, grace_period=1, reduction_factor=2))),
        ("moasha-max-min", lambda s: _seeded(s, lambda: MOASHA(space(epochs=max_t), metrics=["acc", "loss"], mode=["max", "min"], time_attr="epoch", max_t=max_t, grace_period=1, reduction_factor=2))),
        ("pbt", lambda s: PopulationBasedTraining(space(epochs=max_t), metric="loss", mode="min", resource_attr="epoch", max_t=max_t, population_size=2, perturbation_interval=1, random_seed=s)),
    ]
    reps = 1 if tier == "quick" else 4
    ids = []
    changed = 0
    for rep in range(reps):
        for mi, (label, make) in enumerate(makers):
            s = 100 * seed + 10 * rep + mi
            np.random.seed(s)
            with _quiet():
                sched = make(s)
            n_trials = 6 + 2 * rep
            spec = {"id": "S/%s/seed%d" % (label, s), "n_workers": 1 + (mi + rep) % 3, "burst": BURSTS[(mi + rep) % 3], "interval": INTERVALS[(mi + 2 * rep) % 3][0], "jumps": INTERVALS[(mi + 2 * rep) % 3][1], "mid_run_best": True}
            run = _run_tuner(book, env, classes, root, spec, scheduler=sched, producer=producer, stop=lambda st, n=n_trials: st.num_trials_finished >= n)
            ids.append(spec["id"])
            changed += sum(1 for c in run["backend"].configs.values() if len(c) > 1 and any(not _same(c[0], x) for x in c[1:]))
    return ids, changed


def _seeded(s, make):
    import random

    random.seed(s)
    np.random.seed(s)
    return make()


# --------------------------------------------------------------------------------------------------------------
# Part B: StoreResultsCallback + TuningStatus driven directly on enumerated tables
# --------------------------------------------------------------------------------------------------------------
LOW, HIGH = 0.25, 0.75
CELLS = [LOW, HIGH, NAN, MISSING]
MIRROR = {0: 0.9, 1: 0.1, 2: MISSING, 3: NAN}  # second metric: the row with the low first metric has the high second one
DECLARATIONS = [
    (["m1", "m2"], ["min", "max"]),
    (["m2", "m1"], ["max", "min"]),
    (["m1", "m2"], "min"),
    (["m1", "m2"], "max"),
    (["m1", "m2"], ["max", "min"]),
    (["m2", "m1"], ["min", "min"]),
]
TRIAL_PATTERNS = [lambda i: 0, lambda i: i % 2, lambda i: i]
DECISIONS = ["CONTINUE", "PAUSE", "STOP"]


def _enumerated_tables(tier):
    tables = []
    max_len = 4 if tier == "quick" else 5
    n = 0
    for L in range(1, max_len + 1):
        for seq in itertools.product(range(4), repeat=L):
            pats = [n % 3] if tier == "quick" or L == max_len else ([0, 1, 2] if L < max_len - 1 else [n % 3, (n + 1) % 3])
            for p in pats:
                rows = []
                for i, c in enumerate(seq):
                    r = {"epoch": i + 1}
                    if CELLS[c] is not MISSING:
                        r["m1"] = CELLS[c]
                    c2 = MIRROR[seq[L - 1 - i]]
                    if c2 is not MISSING:
                        r["m2"] = c2 if not _is_num(c2) or _is_nan(c2) else c2 + 0.01 * i * ((n % 3) - 1)  # ties / no ties
                    rows.append((TRIAL_PATTERNS[p](i), r))
                tables.append({"id": "B%d/cells-%s/trials-%d" % (n, "".join("lhnm"[c] for c in seq), p), "declaration": DECLARATIONS[n % len(DECLARATIONS)], "rows": rows, "idle_trials": [7] if n % 4 == 0 else [], "jumps": {0: (), 1: (1,), 2: "all"}[n % 3]})
                n += 1
    return tables


def _special_tables():
    """results without any number, empty results, a metric that is text in one trial and numeric in another"""
    specs = [
        ("text-only-results", [(0, {"phase": "warmup"}), (0, {"phase": "train"}), (1, {"phase": "warmup"})]),
        ("text-only-then-numbers", [(0, {"phase": "warmup"}), (0, {"phase": "train", "m1": 0.5, "m2": 1}), (1, {"m1": 0.25, "m2": 3}), (1, {"phase": "done"})]),
        ("empty-results", [(0, {}), (1, {"m1": 0.75, "m2": 0.5}), (1, {}), (0, {"m1": 0.5})]),
        ("numbers-then-empty", [(0, {"m1": 2, "m2": -1}), (0, {}), (0, {})]),
        ("text-metric-in-auxiliary-column", [(0, {"m1": 0.5, "m2": 0.1, "note": "ok"}), (1, {"m1": 0.4, "m2": 0.2, "note": 3}), (0, {"m1": 0.3, "m2": 0.3, "note": 1.5})]),
    ]
    return [{"id": "B/special-%s" % k, "declaration": DECLARATIONS[i % len(DECLARATIONS)], "rows": rows, "idle_trials": [5] if i % 2 else [], "jumps": [(), (1,), "all"][i % 3]} for i, (k, rows) in enumerate(specs)]


def _random_tables(tier, seed):
    rng = np.random.RandomState(104729 * seed + 3)
    pool = [0.25, 0.75, -1.5, 3, 0, -0.0, 1e15, 1.7976931348623157e308, 5e-324, 1e-300, 0.1 + 0.2, 1 / 3, 123456789.123456789, -7, NAN, NAN, MISSING, MISSING]
    tables = []
    for j in range(60 if tier == "quick" else 200):
        n_trials = int(rng.randint(1, 5))
        rows = []
        for t in range(n_trials):
            for k in range(int(rng.randint(0, 5))):
                r = {"epoch": k + 1}
                for m in ("m1", "m2", "m3"):
                    v = pool[int(rng.randint(len(pool)))] if rng.rand() < 0.6 else round(float(rng.normal()), int(rng.randint(1, 17)))
                    if v is not MISSING:
                        r[m] = v
                if rng.rand() < 0.3:
                    r["aux"] = [math.inf, -math.inf, 2.5, NAN][int(rng.randint(4))]
                if rng.rand() < 0.3:
                    r["phase"] = str(rng.choice(["warmup", "train", "diverged", "with,comma", 'quote"d', "two words"]))
                if rng.rand() < 0.1:
                    r["st_tuner_time"] = float(rng.randint(1, 1000))
                rows.append((t, r))
        order = rng.permutation(len(rows))
        # keep the per-trial order of results, interleave the trials
        per = defaultdict(list)
        for t, r in rows:
            per[t].append(r)
        seq = []
        for i in order:
            t = rows[int(i)][0]
            seq.append((t, per[t].pop(0)))
        names = ["m1", "m2", "m3"][: int(rng.randint(1, 4))]
        if rng.rand() < 0.5:
            names = names[::-1]
        modes = str(rng.choice(["min", "max"])) if rng.rand() < 0.3 else [str(rng.choice(["min", "max"])) for _ in names]
        tables.append({"id": "B/random-table-%d" % j, "declaration": (names, modes), "rows": seq, "idle_trials": [9] if rng.rand() < 0.3 else [], "jumps": [(), (1, 3), "all"][int(rng.randint(3))]})
    return tables


def _trial_configs(table):
    """configuration of a trial; trial 1 is 'resumed with a changed configuration' from its second result on"""
    def cfg(t, k):
        c = {"lr": round(0.1 * (t + 1) + 1e-7 * t, 8), "width": 8 << t if t < 6 else 3, "act": ACTS[t % 3]}
        if t == 1 and k >= 1:
            c = dict(c, lr=c["lr"] / 3.0, width=c["width"] + 1)
        return c

    return cfg


def _drive_table(book, env, root, table, name, markers=False):
    """real StoreResultsCallback and TuningStatus on one table"""
    from pathlib import Path
    from types import SimpleNamespace

    Trial, Status = env["Trial"], env["Status"]
    names, modes = table["declaration"]
    path = Path(root) / name
    path.mkdir(parents=True)
    interval = 7.0
    stub = SimpleNamespace(tuner_path=path, results_update_interval=interval)
    cb = env["StoreResultsCallback"]()
    t0 = time.perf_counter()
    cb.on_tuning_start(stub)
    csv = str(path / env["ST_RESULTS_DATAFRAME_FILENAME"])
    status = env["TuningStatus"](metric_names=list(names))
    cfg = table.get("configs") or _trial_configs(table)
    seen = defaultdict(int)
    handed, snapshots, prev = [], [], None
    for t in table["idle_trials"]:
        status.update(trial_status_dict={t: (Trial(t, cfg(t, 0), None), Status.in_progress)}, new_results=[])
    for i, (tid, result) in enumerate(table["rows"]):
        where = "%s/row %d" % (table["id"], i)
        config = cfg(tid, seen[tid])
        seen[tid] += 1
        trial = Trial(trial_id=tid, config=copy.deepcopy(config), creation_time=None)
        decision = DECISIONS[(i + len(table["rows"])) % 3]
        given = copy.deepcopy(result)
        elapsed = table["jumps"] == "all" or (i + 1) in table["jumps"]
        if elapsed:
            _Clock.offset += interval + 2.0
        before = len(cb.results)
        try:
            cb.on_trial_result(trial=trial, status=Status.in_progress, result=given, decision=decision)
        except Exception as e:
            book.check(C_NOERR, False, where=where, call="on_trial_result", raised=repr(e)[:300])
            return
        ok = book.check(C_ROWS, len(cb.results) == before + 1 == i + 1, where=where, rows=len(cb.results), delivered=i + 1)
        if ok:
            prev = _check_row(book, cb.results[-1], {"trial_id": tid, "result": result, "config": config, "decision": decision}, prev, time.perf_counter() - t0, where)
            snapshots.append(copy.deepcopy(cb.results[-1]))
        book.check(C_HANDED, _same(given, result), where=where, handed=result, after_logging=given)
        _check_disk_step(book, csv, cb.results, elapsed, where)
        handed.append((tid, copy.deepcopy(result)))
        status.update(trial_status_dict={tid: (trial, Status.in_progress)}, new_results=[(tid, given)])
        _check_status(book, status, handed, where)
    cb.on_tuning_end()
    where = table["id"]
    if snapshots:
        book.check(C_EARLIER, all(_same(a, b) for a, b in zip(cb.results, snapshots)), where=where)
    with open(path / env["ST_METADATA_FILENAME"], "w") as f:
        json.dump({env["ST_TUNER_CREATION_TIMESTAMP"]: 0.0, "metric_names": list(names), "metric_mode": modes, "entrypoint": "c17"}, f)
    if markers:
        try:
            with _quiet():
                exp = env["load_experiment"](name, download_if_not_found=False, local_path=root)
            # the empty string cannot be told apart from a missing cell in a CSV file without quoting: own clause (F11)
            cl = C_MARKERS_EMPTY if where.endswith("text-value-''") else C_MARKERS
            _check_table(book, exp.results, cb.results, where, clause=cl)
        except Exception as e:
            book.check(C_MARKERS_EMPTY if where.endswith("text-value-''") else C_MARKERS, False, where=where, raised=repr(e)[:300])
        shutil.rmtree(path, ignore_errors=True)
        return
    _check_experiment(book, env, root, name, list(names), modes, cb.results, where)
    # best trial according to the statistics (trials without any result included)
    for pos, mname in enumerate(names):
        mode = _mode_of(names, modes, pos)
        opt, trials = _attaining(handed, mname, mode)
        if opt is None:
            continue
        try:
            with _quiet():
                res = env["print_best_metric_found"](status, metric_names=[mname], mode=mode)
            ok = res is not None and res[0] in trials and _same(res[1], opt)
        except Exception as e:
            res, ok = repr(e)[:300], False
        book.check(C_PB, ok, where=where, chosen=mname, mode=mode, optimum=opt, attained_by=sorted(trials), returned=res, values=[(t, r.get(mname, MISSING)) for t, r in handed])
    shutil.rmtree(path, ignore_errors=True)


def _marker_tables():
    tables = []
    for j, m in enumerate(NA_MARKERS):
        rows = [(0, {"epoch": 1, "m1": 0.5, "phase": "train"}), (1, {"epoch": 1, "m1": 0.25, "phase": m}), (0, {"epoch": 2, "m1": 0.75, "phase": "done"})]

        def cfg(t, k, m=m):
            return {"lr": 0.1 * (t + 1), "norm": m if t == 0 else "batch"}

        tables.append({"id": "D%d/text-value-%r" % (j, m), "declaration": (["m1"], "min"), "rows": rows, "idle_trials": [], "jumps": (), "configs": cfg})
    return tables


# --------------------------------------------------------------------------------------------------------------
# Part C: metric_name_mode
# --------------------------------------------------------------------------------------------------------------
def _check_metric_name_mode(book, env):
    fn = env["util"].metric_name_mode
    decls = METRIC_VARIANTS + DECLARATIONS + [(["a", "b", "c"], ["max", "min", "max"]), (["a", "b", "c"], "max"), (["only"], ["max"])]
    n = 0
    for names, modes in decls:
        for pos, name in enumerate(names):
            want = (name, _mode_of(names, modes, pos))
            for metric in (pos, name):
                n += 1
                try:
                    got = fn(metric_names=list(names), metric_mode=copy.deepcopy(modes), metric=metric)
                    ok = tuple(got) == want
                except Exception as e:
                    got, ok = repr(e)[:200], False
                book.check(C_NMM, ok, metric_names=names, metric_mode=modes, metric=metric, expected=want, returned=got)
    return n


# --------------------------------------------------------------------------------------------------------------
def monitor_results(tier="quick", seed=0):
    seed = int(seed)
    book = _Book()
    previous_disable = logging.root.manager.disable
    logging.disable(logging.CRITICAL)
    old_env = os.environ.get("SYNETUNE_FOLDER")
    root = tempfile.mkdtemp(prefix="c17_monitor_")
    os.environ["SYNETUNE_FOLDER"] = root
    env = _environment()
    util = env["util"]
    old_datetime = util.datetime
    util.datetime = _Clock
    _Clock.offset = 0.0
    samples = []
    try:
        classes = _make_classes(env)
        config_space = {"lr": env["uniform"](0.0, 1.0), "width": env["randint"](1, 200), "act": env["choice"](ACTS)}
        # Part A
        specs = _tuner_catalogue(tier, seed)
        exits = Counter()
        for spec in specs:
            run = _run_tuner(book, env, classes, root, spec, config_space=config_space)
            late = len(run["deliveries"]) > 0 and spec.get("interval") == INTERVALS[0][0]  # rows that only on_tuning_end can write
            exits[(run.get("exit"), "criterion" if "stop_after_finished" in spec else "exhausted" if run.get("exit") == "normal" else "", late)] += 1
        shipped, changed = _shipped_runs(book, env, classes, root, tier, seed)
        # Part B
        tables = _enumerated_tables(tier) + _special_tables() + _random_tables(tier, seed)
        for i, table in enumerate(tables):
            _drive_table(book, env, root, table, "b%d" % i)
        # Part C
        n_nmm = _check_metric_name_mode(book, env)
        # Part D
        marker_tables = _marker_tables()
        for i, table in enumerate(marker_tables):
            _drive_table(book, env, root, table, "d%d" % i, markers=True)
        samples = [_describe(specs[i]) for i in (0, 15, len(specs) - 1)] + [{"id": tables[37]["id"], "declaration": tables[37]["declaration"], "rows": [(t, {k: ("nan" if _is_nan(v) else v) for k, v in r.items()}) for t, r in tables[37]["rows"]]}]
    finally:
        util.datetime = old_datetime
        logging.disable(previous_disable)
        if old_env is None:
            os.environ.pop("SYNETUNE_FOLDER", None)
        else:
            os.environ["SYNETUNE_FOLDER"] = old_env
        shutil.rmtree(root, ignore_errors=True)
    global _LAST_BOOK
    _LAST_BOOK = book
    if changed == 0 and not book.viol:
        raise RuntimeError("c17 monitor: no shipped-scheduler run resumed a trial with a changed configuration")
    paths = {"abort by failures": ("ValueError", "", True), "exception raised by the scheduler": ("ScriptedSchedulerError", "", True), "search space exhausted": ("normal", "exhausted", True), "stop criterion met": ("normal", "criterion", True)}
    unseen = [k for k, v in paths.items() if exits[v] == 0]
    if unseen and not book.viol:
        raise RuntimeError("c17 monitor: exit paths of Tuner.run never taken with rows left to be written at the end: %s" % unseen)
    empty = [c for c in CLAUSES if book.per[c] == 0]
    if empty:
        raise RuntimeError("c17 monitor: clauses without a single check: %s" % empty)
    distinct = len(specs) + len(shipped) + len(tables) + len(marker_tables) + n_nmm
    summary = "%d real Tuner runs on an in-memory back end (%d scripted: %d shapes x workers {1,2,3} x burst {1,2,1/3} x update interval {never, 5 s, 0 s elapsed under a controlled clock} + random scripts of <= 5 trials x <= 4 results; every exit path of Tuner.run: space exhausted, criterion met, abort by > max_failures failed trials, exception raised by the scheduler in on_trial_result / suggest; %d with shipped schedulers FIFO / Hyperband stopping+promotion / MOASHA / PBT, <= 12 trials x 4 epochs), %d tables driven through StoreResultsCallback + TuningStatus (all cell sequences of length <= %d over {low, high, NaN, missing} x 2 metrics, + random tables <= 4 trials x <= 4 results x 3 metrics), %d text values spelled like missing-value markers, %d metric_name_mode queries; 1-3 metrics, modes as string or list" % (
        len(specs) + len(shipped), len(specs), len(SHAPES), len(shipped), len(tables), 4 if tier == "quick" else 5, len(marker_tables), n_nmm)  # fmt: skip
    return {"evaluations": book.n, "distinct": distinct, "clauses": list(CLAUSES), "violations": book.viol, "samples": samples[:4], "summary": summary}
