"""C02 -- every reported result is delivered exactly once, in order, never after stop."""
from pyvc.spec import *
from contracts.iface import *
from contracts.c01 import Tuner_update_running_trials, Tuner_schedule_new_tasks  # noqa: F401  (skip rule, polling of started trials)
from contracts.c10 import ScenarioSim, SimState_remove_events  # noqa: F401  (simulator back end)

try:
    from collections import defaultdict
    from syne_tune.backend.trial_backend import TrialBackend
    from syne_tune.backend.trial_status import TrialResult
except ImportError:
    from pyvc.spec import NativeOnly as TrialBackend

LEVEL = "exploration"
EXPLANATION = (
    "Generic poll-based TrialBackend.fetch_status_results / pause / resume driven by a harness whose worker output "
    "is batched arbitrarily between polls (all batch sizes symbolic within the bound); the tuner's skip rule "
    "(C01 contract on Tuner._update_running_trials) and the simulator back end (C10 scenario) are shared obligations."
)
ASSUMPTIONS = [
    "bounded: one trial, first run emits <= 3 results, second run <= 2, three polls",
    "worker output of a run only grows between polls (prefix-monotone)",
    "interface contracts of contracts/iface.py for the tuner-side obligations",
]


class PollBackend(TrialBackend):
    """generic back end whose abstract methods read a scripted, growing list of worker results"""

    def __init__(self):
        self.delete_checkpoints = False
        self.trial_ids = []
        self._trial_dict = dict()
        self._last_metric_seen_index = defaultdict(lambda: 0)
        self.emitted = []  # everything the worker wrote so far (all runs of trial 0, in order)
        self.status = "InProgress"

    def _schedule(self, trial_id, config):
        self.status = "InProgress"

    def _all_trial_results(self, trial_ids):
        return [TrialResult(trial_id=0, config={}, creation_time=None, metrics=list(self.emitted), status=self.status) for t in trial_ids if t == 0]

    def _pause_trial(self, trial_id, result):
        self.status = "Paused"

    def _resume_trial(self, trial_id):
        pass

    def _stop_trial(self, trial_id, result):
        self.status = "Stopped"


def scenario_poll(n1, late, n2):
    """run 1 of trial 0 emits results 1..3; the first poll sees the first n1 of them; the scheduler pauses on
    what it saw; ``late`` more results are written before the worker actually stops; the trial is resumed and
    run 2 emits n2 results; two more polls."""
    be = PollBackend()
    be.start_trial({})
    run1 = [{"epoch": 1, "run": 1, "st_worker_timestamp": 1}, {"epoch": 2, "run": 1, "st_worker_timestamp": 2}, {"epoch": 3, "run": 1, "st_worker_timestamp": 3}]
    run2 = [{"epoch": 2, "run": 2, "st_worker_timestamp": 4}, {"epoch": 3, "run": 2, "st_worker_timestamp": 5}]
    assume(0 <= n1 and n1 <= 3 and 0 <= late and n1 + late <= 3 and 0 <= n2 and n2 <= 2)
    for i in range(3):
        if i < n1:
            be.emitted.append(run1[i])
    status, res1 = be.fetch_status_results([0])
    check("first-poll-delivers-what-was-reported", len(res1) == n1 and forall(range(0, len(res1)), lambda i: res1[i][1]["epoch"] == i + 1 and res1[i][1]["run"] == 1))
    # the scheduler decides to pause on the last delivered result
    be.pause_trial(0)
    for i in range(3):
        if n1 <= i and i < n1 + late:
            be.emitted.append(run1[i])  # written after the decision, before the worker stopped
    be.resume_trial(0)
    for i in range(2):
        if i < n2:
            be.emitted.append(run2[i])
    status, res2 = be.fetch_status_results([0])
    status, res3 = be.fetch_status_results([0])
    check("nothing-of-the-old-run-after-resume", forall(range(0, len(res2)), lambda i: res2[i][1]["run"] == 2))
    check("new-run-delivered-from-its-first-report", len(res2) == n2 and forall(range(0, len(res2)), lambda i: res2[i][1]["epoch"] == i + 2))
    check("nothing-delivered-twice", len(res3) == 0)
    return True


@contract("contracts.c02:scenario_poll", props=("C02",))
class ScenarioPoll:
    label = "TrialBackend[poll-scenario]"
    params = dict(n1=Int, late=Int, n2=Int)
    unbounded = False
    has_lists = False
    shapes = [{}]

    def requires(s):
        return True

    def ensures(old, s, result):
        return {"completed": result == True}  # noqa: E712


from pyvc.native import native_monitor  # noqa: E402

EXTRA_CHECKS = [native_monitor("C02", "contracts.c02_native", "monitor_delivery", "delivery", "about 1270 (thorough 4370) scenarios: real Tuner.run with a scripted scheduler (<= 3 workers, <= 5 trials, <= 3 runs per trial) on a generic poll back end (every batching of <= 3 results over <= 3 polls, decisions at every position, late output) and on the simulator with hand-made tables (elapsed-time dips / plateaus / noise at every position, pause / resume cycles, check-pointing on / off, hand-driven clock)")]
