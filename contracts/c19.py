"""C19 -- multi-objective ranking is Pareto-consistent and MOASHA follows it."""
from pyvc.spec import *

LEVEL = "exploration"
MO_ND = "syne_tune.optimizer.schedulers.multiobjective.non_dominated_priority"
MO_PR = "syne_tune.optimizer.schedulers.multiobjective.multiobjective_priority"
MO_ASHA = "syne_tune.optimizer.schedulers.multiobjective.moasha"

EXPLANATION = (
    "Bounded symbolic verification with a trusted model of numpy arrays of concrete shape: pareto_efficient and "
    "nondominated_sort against the dominance / Pareto-layer specification for up to 4 points in 1..3 dimensions "
    "(all coordinates symbolic, ties included); priority functions against 'lower value <=> earlier layer'; "
    "_Bracket.on_result and MOASHA.on_trial_result against the rank-fraction rule for rungs of up to 3 recorded trials."
)
ASSUMPTIONS = [
    "A-REAL",
    "mini-numpy model of ndarrays of concrete shape (pyvc/npmodel.py) is trusted",
    "bounded: <= 4 points, <= 3 objectives, <= 3 recorded trials per rung, <= 3 rungs",
    "np.linalg.norm modelled by the squared norm (order-isomorphic)",
]


def dominates(X, i, j, d):
    """row i dominates row j: no worse in every objective and strictly better in one (minimisation)"""
    return forall(range(0, d), lambda c: X[i][c] <= X[j][c]) and exists(range(0, d), lambda c: X[i][c] < X[j][c])


def chain_depth(X, n, d, j, fuel):
    """Pareto layer of point j = length of the longest dominance chain ending in j"""
    if fuel == 0:
        return 0
    best = 0
    for i in range(n):
        if i != j:
            cand = 1 + chain_depth(X, n, d, i, fuel - 1)
            best = ite(dominates(X, i, j, d) and cand > best, cand, best)
    return best


@contract(MO_ND + ":pareto_efficient", props=("C19",))
class ParetoEfficient:
    params = dict(X=Arr(Real))
    unbounded = False
    shapes = [{"X": [n, d]} for n in range(0, 4) for d in range(1, 3)] + [{"X": [4, 2]}, {"X": [3, 3]}]
    shapes_thorough = [{"X": [n, d]} for n in range(0, 6) for d in range(1, 4)]

    def requires(s):
        return True

    def ensures(old, s, result):
        n = old.X.shape[0]
        d = old.X.shape[1]
        return {
            "length": len(result) == n,
            "exactly-undominated": forall(range(0, n), lambda j: bool(result[j]) == (not exists(range(0, n), lambda i: dominates(old.X, i, j, d)))),
        }


@contract(MO_ND + ":nondominated_sort", props=("C19",))
class NondominatedSort:
    params = dict(X=Arr(Real), dim=Opt(Int), max_items=Opt(Int))
    unbounded = False
    shapes = [{"X": [n, d]} for n in range(0, 4) for d in range(1, 3)]
    shapes_thorough = [{"X": [n, d]} for n in range(0, 4) for d in range(1, 4)] + [{"X": [4, 2]}]

    def requires(s):
        d = s.X.shape[1]
        return {"dim": s.dim is None or (0 <= s.dim and s.dim < d), "max_items": s.max_items is None or s.max_items >= 1}

    def ensures(old, s, result):
        n = old.X.shape[0]
        d = old.X.shape[1]
        m = len(result)
        depth = [chain_depth(old.X, n, d, j, n) for j in range(n)]
        out = {
            "indices-valid": forall(range(0, m), lambda p: 0 <= result[p] and result[p] < n),
            "each-index-once": forall(range(0, m), lambda p: forall(range(0, m), lambda q: result[p] != result[q] if p < q else True)),
            "earlier-layer-first": forall(range(0, m), lambda p: forall(range(0, m), lambda q: depth[result[p]] <= depth[result[q]] if p < q else True)),
        }
        if old.max_items is None:
            out["all-returned"] = m == n
        else:
            out["truncated-length"] = m == (old.max_items if old.max_items < n else n)
            # whatever was cut off is not in an earlier layer than anything returned
            out["prefix-of-layer-order"] = forall(
                range(0, n),
                lambda j: forall(range(0, m), lambda p: depth[result[p]] <= depth[j]) if not exists(range(0, m), lambda p: result[p] == j) else True,
            )
        return out


declare_class("NonDominatedPriority", MO_PR + ":NonDominatedPriority", dict(metrics=Lit(None), dim=Lit(0), max_num_samples=Lit(None)))
declare_class("FixedObjectivePriority", MO_PR + ":FixedObjectivePriority", dict(metrics=Lit(None), dim=Lit(0)))


@contract(MO_PR + ":MOPriority.__call__", props=("C19",))
class NonDominatedPriorityCall:
    """MOPriority.__call__: one priority per sample, lower value = picked earlier.  For the non-dominated
    priority: a point of an earlier Pareto layer gets a strictly lower priority than a point of a later one."""

    label = "NonDominatedPriority.__call__"
    params = dict(self=Obj("NonDominatedPriority"), objectives=Arr(Real))
    unbounded = False
    shapes = [{"objectives": [n, 2]} for n in range(1, 4)]
    shapes_thorough = [{"objectives": [n, 2]} for n in range(1, 4)] + [{"objectives": [3, 3]}]

    def requires(s):
        return True

    def ensures(old, s, result):
        n = old.objectives.shape[0]
        d = old.objectives.shape[1]
        depth = [chain_depth(old.objectives, n, d, j, n) for j in range(n)]
        return {
            "one-per-sample": len(result) == n,
            "earlier-layer-lower-priority": forall(range(0, n), lambda i: forall(range(0, n), lambda j: result[i] < result[j] if depth[i] < depth[j] else True)),
        }


declare_class(
    "MOBracket",
    MO_ASHA + ":_Bracket",
    dict(rf=Real, _rungs=List(Tup(Real, ADict(Int, Rec(m0=Real, m1=Real)))), priority=Obj("FixedObjectivePriority")),
)


def bracket_shapes(max_rungs, max_rec):
    out = []
    for k in range(0, max_rungs + 1):
        for n in range(0, max_rec + 1):
            sh = {"self._rungs": k}
            for i in range(k):
                sh["self._rungs[%d].1" % i] = n
            out.append(sh)
    return out


@contract(MO_ASHA + ":_Bracket.on_result", props=("C19",))
class BracketOnResult:
    """a trial reaching a rung continues exactly when its priority rank among all trials recorded at that rung,
    itself included, is within the best 1/rf fraction (tie latitude when the fraction equals 1/rf)"""

    params = dict(self=Obj("MOBracket"), trial_id=Int, cur_iter=Int, metrics=Rec(m0=Real, m1=Real))
    unbounded = False
    shapes = bracket_shapes(2, 3)
    shapes_thorough = bracket_shapes(3, 4)

    def requires(s):
        k = len(s.self._rungs)
        return {"rf": s.self.rf > 1, "milestones-decreasing": forall(range(0, k - 1), lambda i: s.self._rungs[i][0] > s.self._rungs[i + 1][0])}

    def ensures(old, s, result):
        k = len(old.self._rungs)
        # the rung that takes the decision: first (highest) rung reached and not yet entered
        j = None
        for i in range(k - 1, -1, -1):
            if old.cur_iter >= old.self._rungs[i][0] and (old.trial_id not in old.self._rungs[i][1]):
                j = i
        out = {}
        if j is None:
            out["no-rung-continues"] = result == "CONTINUE"
            out["frame"] = forall(range(0, k), lambda i: unchanged(s.self._rungs[i][1], old.self._rungs[i][1]))
            return out
        rec0 = old.self._rungs[j][1]
        rec1 = s.self._rungs[j][1]
        n = len(rec0)
        out["recorded-once"] = len(rec1) == n + 1 and (old.trial_id in rec1) and rec1[old.trial_id]["m0"] == old.metrics["m0"]
        out["others-unchanged"] = forall(range(0, k), lambda i: unchanged(s.self._rungs[i][1], old.self._rungs[i][1]) if i != j else True)
        if n == 0:
            out["first-in-rung-continues"] = result == "CONTINUE"
        else:
            vals = [x["m0"] for x in rec0.values()]
            better = count(range(0, n), lambda i: vals[i] < old.metrics["m0"])
            frac = better / (n + 1)
            out["stop-beyond-fraction"] = implies(frac > 1 / old.self.rf, result == "STOP")
            out["continue-within-fraction"] = implies(frac < 1 / old.self.rf, result == "CONTINUE")
        return out


declare_class("Trial", "syne_tune.backend.trial_status:Trial", dict(trial_id=Int), builder="trial")

declare_class(
    "MOASHA",
    MO_ASHA + ":MOASHA",
    dict(
        _max_t=Int,
        _time_attr=Lit("epoch"),
        _metrics=Lit(["m0", "m1"]),
        _metric_op=Rec(m0=Enum(1, -1), m1=Enum(1, -1)),
        _trial_info=ADict(Int, Obj("MOBracket")),
        _num_stopped=Int,
    ),
)


@contract(MO_ASHA + ":MOASHA.on_trial_result", props=("C19", "C15"))
class MoashaOnTrialResult:
    """every trial is stopped at the maximum resource; below it the bracket decides on the metrics
    mapped to minimisation (per-metric mode)"""

    params = dict(self=Obj("MOASHA"), trial=Obj("Trial"), result=Rec(epoch=Int, m0=Real, m1=Real))
    unbounded = False
    shapes = [{"self._trial_info": 1, "self._trial_info.val0._rungs": 1, "self._trial_info.val0._rungs[0].1": n} for n in range(0, 3)]
    raises = {"KeyError": "unknown_trial"}

    def requires(s):
        brs = list(s.self._trial_info.values())
        return {
            "rf": forall(range(0, len(brs)), lambda i: brs[i].rf > 1),
            "milestones-decreasing": forall(range(0, len(brs)), lambda i: forall(range(0, len(brs[i]._rungs) - 1), lambda r: brs[i]._rungs[r][0] > brs[i]._rungs[r + 1][0])),
        }

    def unknown_trial(old):
        return old.trial.trial_id not in old.self._trial_info

    def ensures(old, s, result):
        out = {}
        if old.result["epoch"] >= old.self._max_t:
            out["stop-at-max"] = result == "STOP"
            out["counted"] = s.self._num_stopped == old.self._num_stopped + 1
            return out
        br0 = old.self._trial_info[old.trial.trial_id]
        br1 = s.self._trial_info[old.trial.trial_id]
        out["stopped-counted"] = s.self._num_stopped == old.self._num_stopped + (1 if result == "STOP" else 0)
        k = len(br0._rungs)
        j = None
        for i in range(k - 1, -1, -1):
            if old.result["epoch"] >= br0._rungs[i][0] and (old.trial.trial_id not in br0._rungs[i][1]):
                j = i
        if j is not None:
            rec1 = br1._rungs[j][1]
            out["metrics-mapped-to-min"] = rec1[old.trial.trial_id]["m0"] == old.result["m0"] * old.self._metric_op["m0"] and rec1[old.trial.trial_id]["m1"] == old.result["m1"] * old.self._metric_op["m1"]
        return out


from pyvc.native import native_monitor  # noqa: E402

EXTRA_CHECKS = [native_monitor("C19", "contracts.c19_native", "monitor_moasha", "moasha", "704 point sets + 1086 MOASHA scenarios (thorough 6535 in total): pareto filter / non-dominated sort / priorities on every small grid set and random sets (n <= 9 (12), dimension 1..5, ties, duplicates) x preferred dimension x max_items; the real MOASHA (max_t <= 27, rf in {1.5,2,2.5,3,4}, brackets 1..3, every min/max list, all priorities) under every arrival order of 3-4 (5) chain points and random interleavings with level-skipping / late-first reporters and on_trial_complete, exact rational rank fractions, min/max twin with permuted metric order")]
